package main

// Replays: a registered Go test (template) that exercises the real code of the
// function family an obligation belongs to, injected with `go test -overlay`
// so nothing is written to /repo.

import (
	"bytes"
	"context"
	"encoding/json"
	"fmt"
	"os"
	"os/exec"
	"path/filepath"
	"strings"
	"time"
)

func runReplayTemplate(repo, verif string, sp ReplaySpec, obligation string) (string, bool) {
	src := filepath.Join(verif, "replay", "templates", sp.Template)
	if _, err := os.Stat(src); err != nil {
		return "template missing: " + src, false
	}
	dir, err := os.MkdirTemp("", "govc-replay-")
	if err != nil {
		return err.Error(), false
	}
	defer os.RemoveAll(dir)
	target := filepath.Join(repo, strings.TrimPrefix(sp.Pkg, "./"), "zz_verif_replay_test.go")
	ov := map[string]map[string]string{"Replace": {target: src}}
	data, _ := json.Marshal(ov)
	ovf := filepath.Join(dir, "ov.json")
	os.WriteFile(ovf, data, 0o644)
	ctx, cancel := context.WithTimeout(context.Background(), 300*time.Second)
	defer cancel()
	cmd := exec.CommandContext(ctx, "go", "test", "-mod=mod", "-ldflags=-checklinkname=0", "-overlay", ovf, "-vet=off", "-count=1", "-timeout", "240s", "-v", "-run", "^"+sp.Run+"$", sp.Pkg)
	cmd.Dir = repo
	cmd.Env = append(os.Environ(), "GOFLAGS=-mod=mod", "GOPROXY=off", "GOSUMDB=off", "GOTOOLCHAIN=local", "VERIF_OBLIGATION="+obligation)
	var out bytes.Buffer
	cmd.Stdout = &out
	cmd.Stderr = &out
	err = cmd.Run()
	o := out.String()
	failed := err != nil && strings.Contains(o, "--- FAIL")
	return o, failed
}

// replayFile re-runs the replay recorded in a replay file.
func replayFile(repo, verif, path string) int {
	var rec map[string]interface{}
	if err := readJSON(path, &rec); err != nil {
		fmt.Fprintln(os.Stderr, err)
		return 2
	}
	fmt.Printf("obligation: %v\n%v\n", rec["obligation"], rec["description"])
	rp, ok := rec["replay"].(map[string]interface{})
	if !ok {
		fmt.Println("no replay template is registered for this obligation; the file carries the verifier's output:")
		fmt.Println(rec["solver_output"])
		if ce, ok := rec["counterexample"]; ok {
			fmt.Println("counterexample (projection on the function's inputs):", ce)
		}
		return 1
	}
	sp := ReplaySpec{Template: fmt.Sprint(rp["template"]), Pkg: fmt.Sprint(rp["package"]), Run: fmt.Sprint(rp["test"])}
	out, failed := runReplayTemplate(repo, verif, sp, fmt.Sprint(rec["obligation"]))
	fmt.Println(out)
	if failed {
		fmt.Println("replay: the real code violates the property on the input shown above")
		return 1
	}
	fmt.Println("replay: no failing input found on the current tree")
	return 0
}
