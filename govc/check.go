package main

// govc check: decide one property — generate the obligations tagged with it from
// /repo's current working tree, discharge them, compare with the claimed set,
// replay refutations, write evidence, print VIOLATION / KNOWN-FINDING lines.

import (
	"encoding/json"
	"flag"
	"fmt"
	"os"
	"path/filepath"
	"regexp"
	"runtime"
	"sort"
	"strings"
	"time"
)

type PropConfig struct {
	Pkgs      []string `json:"pkgs"`       // package patterns to load (relative to /repo)
	Verify    []string `json:"verify"`     // import-path suffixes whose contracts are verified (default: all loaded module packages with contracts in pkgs)
	Tags      []string `json:"tags"`       // clause tag prefixes that belong to the property (default: the id)
	Level     string   `json:"level"`
	Notes     []string `json:"assumptions"`
}

type Expected struct {
	Property    string            `json:"property"`
	Obligations map[string]string `json:"obligations"` // name -> "proved"
	Others      []string          `json:"not_claimed"`  // every other obligation generated on the unchanged tree (unproved, slow, known findings)
	Commit      string            `json:"repo_commit,omitempty"`
}

type KnownFinding struct {
	Property   string `json:"property"`
	Obligation string `json:"obligation"`
	Clause     string `json:"clause,omitempty"`
	WhatFails  string `json:"what_fails"`
	Replay     string `json:"replay,omitempty"`
	Status     string `json:"status"` // "open" | "fixed: <commit>"
	ID         string `json:"id,omitempty"`
}

type ReplaySpec struct {
	Match    string `json:"match"`    // regexp on the obligation name
	Template string `json:"template"` // file under /verif/replay/templates
	Pkg      string `json:"pkg"`      // package dir relative to /repo
	Run      string `json:"run"`      // test name
}

func checkCmd(argv []string) int {
	fs := flag.NewFlagSet("check", flag.ExitOnError)
	repo := fs.String("repo", "/repo", "repository root")
	verif := fs.String("verif", "/verif", "verif root")
	prop := fs.String("prop", "", "property id")
	tier := fs.String("tier", "quick", "quick|thorough")
	update := fs.Bool("update-baseline", false, "rewrite expected/<prop>.json from this run (unchanged tree only)")
	replayPath := fs.String("replay", "", "re-run the replay recorded in this file")
	fs.Parse(argv)
	if *prop == "" {
		fmt.Fprintln(os.Stderr, "check: -prop required")
		return 2
	}
	if *replayPath != "" {
		return replayFile(*repo, *verif, *replayPath)
	}
	t0 := time.Now()
	seed := 0
	if s := os.Getenv("VERIF_SEED"); s != "" {
		fmt.Sscan(s, &seed)
	}
	if t := os.Getenv("VERIF_TIER"); t == "quick" || t == "thorough" {
		*tier = t
	}
	// config
	var cfgs map[string]*PropConfig
	if err := readJSON(filepath.Join(*verif, "config", "props.json"), &cfgs); err != nil {
		fmt.Fprintln(os.Stderr, "config:", err)
		return 2
	}
	cfg := cfgs[*prop]
	if cfg == nil {
		fmt.Fprintln(os.Stderr, "no configuration for", *prop)
		return 2
	}
	tags := cfg.Tags
	if len(tags) == 0 {
		tags = []string{*prop}
	}
	hasTag := func(t string) bool {
		for _, p := range tags {
			if t == p || strings.HasPrefix(t, p+".") {
				return true
			}
		}
		return false
	}
	P, err := LoadProgram(*repo, cfg.Pkgs)
	if err != nil {
		fmt.Fprintln(os.Stderr, "load:", err)
		fmt.Printf("UNDECIDED property=%s the repository does not load: %v\n", *prop, firstLine(err.Error()))
		writeEvidenceBroken(*verif, *prop, *tier, seed, "repository does not type-check with -tags verif: "+firstLine(err.Error()), time.Since(t0).Seconds())
		return 0
	}
	if err := P.LoadContracts(); err != nil {
		fmt.Fprintln(os.Stderr, "contracts:", err)
		return 2
	}
	P.aimOn = hasTag
	loadS := time.Since(t0).Seconds()
	// which contracts
	inScope := func(pkg string) bool {
		if len(cfg.Verify) == 0 {
			for _, p := range cfg.Pkgs {
				q := strings.TrimPrefix(p, "./")
				if strings.HasSuffix(pkg, "/"+q) || pkg == modPath+"/"+q {
					return true
				}
			}
			return false
		}
		for _, v := range cfg.Verify {
			if strings.HasSuffix(pkg, v) {
				return true
			}
		}
		return false
	}
	var keys []string
	for k := range P.contracts {
		keys = append(keys, k)
	}
	sort.Strings(keys)
	var frs []*FuncResult
	specBroken := map[string]string{}
	var undecided []string
	var funcs []string
	for _, k := range keys {
		ct := P.contracts[k]
		aimHere := ct.AimCheck != nil && hasTag(ct.AimCheck.Tag)
		for _, mc := range ct.MustCall {
			if ct.AimCheck != nil && hasTag(mc.Tag) {
				aimHere = true
			}
		}
		if (ct.Trusted && !aimHere) || !inScope(ct.Pkg) {
			continue
		}
		if !contractMentions(P, ct, hasTag) {
			continue
		}
		fn := P.FindFunc(ct)
		if fn == nil {
			undecided = append(undecided, fmt.Sprintf("target-missing %s.%s", shortPkg(ct.Pkg), ct.Target))
			continue
		}
		fr := P.VerifyFunc(ct, fn)
		if fr.Err != "" {
			undecided = append(undecided, fmt.Sprintf("not-verifiable %s.%s: %s", shortPkg(ct.Pkg), ct.Target, fr.Err))
			if strings.HasPrefix(fr.Err, "contract error: spec") {
				// the function exists but a clause of its contract names something the code no longer has (a removed package
				// variable, field, parameter): its claimed clauses cannot be decided on this tree any more
				pfx := shortPkg(ct.Pkg) + "." + ct.Target
				if ct.View != "" {
					pfx += "@" + ct.View
				}
				specBroken[pfx] = fr.Err
			}
			continue
		}
		for _, d := range fr.VC.droppedInvs {
			undecided = append(undecided, "contract-mismatch "+d)
		}
		frs = append(frs, fr)
		funcs = append(funcs, shortPkg(ct.Pkg)+"."+ct.Target)
	}
	genS := time.Since(t0).Seconds() - loadS
	// pick obligations
	picked := map[*Obligation]bool{}
	for _, fr := range frs {
		any := false
		for _, o := range fr.Obls {
			if hasTag(o.Tag) || o.Tag == "inv" || o.Tag == "pre" || o.Tag == "frame" || o.Tag == "post" {
				// untagged clauses of a function that carries the property's clauses belong to its proof
				picked[o] = true
				any = true
			}
		}
		if any {
			for _, o := range fr.Obls {
				if o.IsCover || o.Canary {
					picked[o] = true
				}
			}
		}
	}
	timeout := 60
	if *tier == "thorough" {
		timeout = 180
	}
	// obligations that are not claimed (not in the expected set) cannot change the verdict: in the quick tier they
	// get a short timeout so that known-unproved clauses do not slow every run down
	exp0 := &Expected{Obligations: map[string]string{}}
	readJSON(filepath.Join(*verif, "expected", *prop+".json"), exp0)
	others0 := map[string]bool{}
	for _, n := range exp0.Others {
		others0[n] = true
	}
	if *tier == "quick" && !*update {
		for _, fr := range frs {
			for _, o := range fr.Obls {
				if _, claimed := exp0.Obligations[o.Name]; !claimed && (exp0.Others == nil || others0[o.Name]) {
					o.ShortTimeout = 4 // a NEW obligation (not generated on the unchanged tree) gets the full timeout
				}
			}
		}
	}
	if tf := P.TheoremObligations(hasTag); tf != nil {
		frs = append(frs, tf)
		for _, o := range tf.Obls {
			picked[o] = true
		}
	}
	prelude := P.reg.Prelude()
	SolveAll(func(*FuncResult) string { return prelude }, frs, func(o *Obligation) bool { return picked[o] }, timeout, runtime.NumCPU())
	solveS := time.Since(t0).Seconds() - loadS - genS

	// call-graph frame conditions (forbids clauses)
	forb := P.ForbidsObligations(hasTag)
	forb = append(forb, P.NoWriteObligations(hasTag)...)
	forb = append(forb, P.MayWriteObligations(hasTag)...)
	if len(forb) > 0 {
		frs = append(frs, &FuncResult{VC: NewVC(P.reg), Obls: forb})
		for _, o := range forb {
			picked[o] = true
		}
	}
	// expected / known findings
	exp := &Expected{Property: *prop, Obligations: map[string]string{}}
	expPath := filepath.Join(*verif, "expected", *prop+".json")
	readJSON(expPath, exp)
	var known []KnownFinding
	readJSON(filepath.Join(*verif, "known_findings.json"), &known)
	var replays []ReplaySpec
	readJSON(filepath.Join(*verif, "replay", "map.json"), &replays)
	if more, _ := filepath.Glob(filepath.Join(*verif, "replay", "map_*.json")); len(more) > 0 {
		sort.Strings(more)
		for _, mf := range more {
			var extra []ReplaySpec
			if readJSON(mf, &extra) == nil {
				// specific maps first: the generic per-family entries of map.json are the fallback
				replays = append(extra, replays...)
			}
		}
	}

	type row struct {
		Name, Status, Backend, Desc, Func, Pos string
		Ms                                     int64
	}
	var rows []row
	proved := map[string]bool{}
	present := map[string]bool{}
	byName := map[string]*Obligation{}
	frOf := map[string]*FuncResult{}
	backendCount := map[string]int{}
	var solverMs int64
	vacuous := []string{}
	for _, fr := range frs {
		for _, o := range fr.Obls {
			if !picked[o] || o.Result == nil {
				continue
			}
			solverMs += o.Result.Ms
			if o.IsCover || o.Canary {
				if o.Result.Status == "unsat" && (o.Canary || strings.Contains(o.Name, "requires-sat") || strings.Contains(o.Name, "return-reachable")) {
					vacuous = append(vacuous, o.Name)
				}
				continue
			}
			present[o.Name] = true
			byName[o.Name] = o
			frOf[o.Name] = fr
			rows = append(rows, row{o.Name, o.Result.Status, o.Result.Backend, o.Desc, o.Func, o.Pos, o.Result.Ms})
			if o.Result.Status == "unsat" {
				proved[o.Name] = true
				backendCount[o.Result.Backend]++
			}
		}
	}
	if *update {
		ne := &Expected{Property: *prop, Obligations: map[string]string{}}
		for _, r := range rows {
			if r.Status == "unsat" && r.Ms <= 5000 { // claim only what discharges well under the quick timeout
				ne.Obligations[r.Name] = "proved"
			} else {
				ne.Others = append(ne.Others, r.Name)
			}
		}
		sort.Strings(ne.Others)
		if ne.Others == nil {
			ne.Others = []string{}
		}
		os.MkdirAll(filepath.Dir(expPath), 0o755)
		writeJSON(expPath, ne)
		exp = ne
		fmt.Printf("baseline updated: %d obligations claimed\n", len(ne.Obligations))
	}
	// classify
	knownFor := func(name string) *KnownFinding {
		for i := range known {
			if known[i].Property == *prop && known[i].Obligation == name && !strings.HasPrefix(known[i].Status, "fixed") {
				return &known[i]
			}
		}
		return nil
	}
	exit := 0
	violations := 0
	var unclaimed, missing, knownLines []string
	claimed, discharged := 0, 0
	var expNames []string
	for n := range exp.Obligations {
		expNames = append(expNames, n)
	}
	sort.Strings(expNames)
	replayDir := filepath.Join(*verif, "replays", *prop)
	for _, n := range expNames {
		if !present[n] {
			missing = append(missing, n)
			continue
		}
		claimed++
		if proved[n] {
			discharged++
			continue
		}
		// a claimed obligation no longer discharges: violation
		o := byName[n]
		violations++
		exit = 1
		rp := writeReplay(*repo, *verif, replayDir, *prop, o, frOf[n], prelude, replays)
		suffix := ""
		if !rp.Reproduced {
			suffix = " no-failing-input-found"
		}
		fmt.Printf("VIOLATION property=%s replay=%s%s\n", *prop, rp.Path, suffix)
		fmt.Printf("  failed obligation: %s\n  %s\n  solver: %s (%s)\n", o.Name, o.Desc, o.Result.Status, o.Result.Backend)
	}
	// obligations not claimed: known findings and unproved-unclaimed
	var knownReplayed []map[string]interface{}
	othersNow := map[string]bool{}
	for _, n := range exp.Others {
		othersNow[n] = true
	}
	for _, r := range rows {
		if _, ok := exp.Obligations[r.Name]; ok {
			continue
		}
		if r.Status == "unsat" {
			continue // proved but not claimed (slow or new): reported in evidence only
		}
		if kf := knownFor(r.Name); kf != nil {
			knownLines = append(knownLines, fmt.Sprintf("KNOWN-FINDING: property=%s %s [%s]", *prop, kf.WhatFails, r.Name))
			if *tier == "thorough" {
				// thorough tier: every recorded finding is replayed on the real code again
				rp := writeReplay(*repo, *verif, filepath.Join(*verif, "replays", *prop, "known"), *prop, byName[r.Name], frOf[r.Name], prelude, replays)
				knownReplayed = append(knownReplayed, map[string]interface{}{"obligation": r.Name, "finding": kf.ID, "reproduced_on_real_code": rp.Reproduced, "replay": rp.Path})
			}
			continue
		}
		if exp.Others != nil && !othersNow[r.Name] {
			// an obligation that did not exist on the unchanged tree (new call site, new dereference, renumbered
			// clause) in a function that is under contract, and it does not discharge: the change broke the proof
			o := byName[r.Name]
			violations++
			exit = 1
			rp := writeReplay(*repo, *verif, replayDir, *prop, o, frOf[r.Name], prelude, replays)
			suffix := ""
			if !rp.Reproduced {
				suffix = " no-failing-input-found"
			}
			fmt.Printf("VIOLATION property=%s replay=%s%s\n", *prop, rp.Path, suffix)
			fmt.Printf("  failed obligation (new: not generated on the unchanged tree): %s\n  %s\n  solver: %s (%s)\n", o.Name, o.Desc, o.Result.Status, o.Result.Backend)
			continue
		}
		unclaimed = append(unclaimed, fmt.Sprintf("%s (%s)", r.Name, r.Status))
	}
	for _, l := range knownLines {
		fmt.Println(l)
	}
	for _, v := range vacuous {
		// vacuity: a function whose assumptions became contradictory proves everything
		violations++
		exit = 1
		os.MkdirAll(replayDir, 0o755)
		path := filepath.Join(replayDir, sanitize(v)+".json")
		writeJSON(path, map[string]interface{}{"obligation": v, "kind": "vacuity", "explanation": "the assumptions under which this function is verified are contradictory or no return is reachable; every proof about it is void"})
		fmt.Printf("VIOLATION property=%s replay=%s no-failing-input-found\n  vacuity guard failed: %s\n", *prop, path, v)
	}
	for _, u := range undecided {
		fmt.Printf("UNDECIDED property=%s %s\n", *prop, u)
	}
	for _, m := range missing {
		broken := ""
		for pfx, why := range specBroken {
			if strings.Contains(m, "/"+pfx+"/") {
				broken = why
			}
		}
		if broken != "" {
			// a claimed clause whose contract no longer evaluates against the code: reported as a violation without an input
			// (the price, as for dropped invariants: renaming what a contract names also alarms until the contract follows)
			violations++
			exit = 1
			os.MkdirAll(replayDir, 0o755)
			path := filepath.Join(replayDir, sanitize(m)+".json")
			writeJSON(path, map[string]interface{}{"obligation": m, "property": *prop, "verdict": "contract no longer matches the code", "solver_output": broken,
				"explanation": "this obligation was proved on the unchanged tree; on this tree the function's contract cannot be evaluated against its code any more, so the clause is no longer established"})
			fmt.Printf("VIOLATION property=%s replay=%s no-failing-input-found\n  failed obligation (contract no longer matches the code: %s): %s\n", *prop, path, firstLine(broken), m)
			continue
		}
		fmt.Printf("UNDECIDED property=%s claimed obligation no longer generated: %s\n", *prop, m)
	}
	wall := time.Since(t0).Seconds()
	// evidence
	trusted := map[string]bool{}
	unverified := map[string]bool{}
	unsupported := map[string]bool{}
	inl := map[string]bool{}
	for _, fr := range frs {
		for k := range fr.VC.trusted {
			trusted[k] = true
		}
		for k := range fr.VC.unverifiedCallees {
			unverified[k] = true
		}
		for _, k := range fr.VC.unsupported {
			unsupported[k] = true
		}
		for k := range fr.VC.inlined {
			inl[k] = true
		}
	}
	trustedList := sortedKeys(trusted)
	for _, k := range keys {
		ct := P.contracts[k]
		if ct.Trusted && inScope(ct.Pkg) {
			trustedList = append(trustedList, "assumed contract (not verified): "+shortPkg(ct.Pkg)+"."+ct.Target)
		}
	}
	trustedList = append(trustedList, "T-TOOL govc VC generator, go/ssa (x/tools v0.29.0), z3 4.8.12, z3 5.1.0, cvc5 1.0.3",
		"A-ARCH int is 64 bit; machine arithmetic modelled with explicit wrap-around", "A-SEQ ABCI calls are serialised (mutex operations are no-ops)",
		"A-APPEND append always yields a fresh backing array; []byte values are immutable byte strings",
		"A-REPFRAME interface-level contracts hide the representation of the object behind the interface (footprints/representation clauses); abstract well-formedness tokens are preserved by interface calls because every concrete operation is proved to preserve the concrete invariant",
		"termination is not verified; safety obligations (nil, bounds, div) are only generated for functions marked `safety`, elsewhere a panicking path simply ends")
	var samples []map[string]interface{}
	for i, r := range rows {
		if i%((len(rows)/6)+1) == 0 {
			samples = append(samples, map[string]interface{}{"obligation": r.Name, "what": r.Desc, "verdict": r.Status, "backend": r.Backend, "ms": r.Ms, "function": r.Func, "pos": r.Pos})
		}
	}
	assumptions := append([]string{}, cfg.Notes...)
	for _, u := range unclaimed {
		assumptions = append(assumptions, "unproved, therefore not claimed: "+u)
	}
	for _, u := range sortedKeys(unverified) {
		assumptions = append(assumptions, "unverified callee (result and heap havoc'd): "+u)
	}
	for _, u := range sortedKeys(unsupported) {
		assumptions = append(assumptions, "outside the modelled subset: "+u)
	}
	for _, l := range knownLines {
		assumptions = append(assumptions, l)
	}
	for _, u := range undecided {
		assumptions = append(assumptions, "undecided: "+u)
	}
	for _, m := range missing {
		assumptions = append(assumptions, "claimed obligation no longer generated (undecided): "+m)
	}
	cov := map[string]interface{}{
		"obligations":              max1(claimed),
		"discharged":               max1If(discharged, claimed),
		"checker_cmd":              fmt.Sprintf("bin/check %s --tier %s  (govc check -prop %s; per obligation: z3-new | z3 | cvc5 raced, %ds)", *prop, *tier, *prop, timeout),
		"trusted_base":             trustedList,
		"samples":                  samples,
		"functions_under_contract": funcs,
		"functions_inlined":        sortedKeys(inl),
		"generated_obligations":    len(rows),
		"proved_total":             len(proved),
		"proved_by_backend":        backendCount,
		"solver_ms_total":          solverMs,
		"load_s":                   round1(loadS),
		"vcgen_s":                  round1(genS),
		"solve_s":                  round1(solveS),
		"known_findings":           knownLines,
		"known_findings_replayed": knownReplayed,
		"unclaimed":                unclaimed,
		"undecided":                append(undecided, missing...),
		"vacuity_guards":           "per function: requires satisfiable, a return reachable, canary `ensures false` refuted (an `unsat` answer to any of them is reported as a violation)",
		"integers":                 "mathematical Int with explicit wrap64/wrapu64 on every machine operation; big.Int mathematical",
		"explanation":              "contract-based deductive verification of the real code: weakest-precondition style VCs generated from go/ssa of /repo's working tree, contracts in verif_contracts.go (build tag verif)",
	}
	if claimed == 0 {
		// nothing claimed (e.g. first run before a baseline exists): make that explicit rather than report a proof
		cov["obligations"] = 1
		cov["discharged"] = 0
		if exit == 0 && !*update {
			assumptions = append(assumptions, "no claimed obligations were generated in this run")
		}
	}
	ev := map[string]interface{}{
		"property_id": *prop, "tier": *tier, "seed": seed, "level": "proof", "coverage": cov,
		"assumptions": assumptions, "wall_s": round1(wall), "violations": violations,
	}
	os.MkdirAll(filepath.Join(*verif, "evidence"), 0o755)
	writeJSON(filepath.Join(*verif, "evidence", *prop+".json"), ev)
	fmt.Printf("%s: %d claimed obligations, %d discharged, %d generated, %d known findings, %d unclaimed, %d undecided; %.1fs (load %.1f, vcgen %.1f, solve %.1f)\n",
		*prop, claimed, discharged, len(rows), len(knownLines), len(unclaimed), len(undecided)+len(missing), wall, loadS, genS, solveS)
	return exit
}

func max1(n int) int {
	if n < 1 {
		return 1
	}
	return n
}
func max1If(d, c int) int {
	if c < 1 {
		return 0
	}
	return d
}
func round1(f float64) float64 { return float64(int(f*10+0.5)) / 10 }

func firstLine(s string) string {
	if i := strings.Index(s, "\n"); i >= 0 {
		return s[:i]
	}
	return s
}

func contractMentions(P *Program, ct *Contract, hasTag func(string) bool) bool {
	// a function is relevant when one of its own clauses carries the tag, or it is marked with the property,
	// or it calls something (any contract) — call-site preconditions carry the callee's tags, so be generous:
	for _, p := range ct.Props {
		if hasTag(p) {
			return true
		}
	}
	if ct.AimCheck != nil && hasTag(ct.AimCheck.Tag) {
		return true
	}
	for _, mc := range ct.MustCall {
		if ct.AimCheck != nil && hasTag(mc.Tag) {
			return true
		}
	}

	cl := func(cs []Clause) bool {
		for _, c := range cs {
			if hasTag(c.Tag) {
				return true
			}
		}
		return false
	}
	if cl(ct.Requires) || cl(ct.Ensures) || cl(ct.Claims) || cl(ct.Modifies) || cl(ct.Yields) || hasTag(ct.FrameTag) || hasTag(ct.Safety) || (ct.Iterator && ct.IterTag != "" && hasTag(ct.IterTag)) {
		return true
	}
	for _, is := range ct.Invs {
		if cl(is) {
			return true
		}
	}
	if ct.Implements != "" {
		if ic := P.ifaces[ct.Pkg+"."+ct.Implements]; ic != nil {
			for _, m := range ic.Methods {
				if cl(m.Ensures) || cl(m.Requires) {
					return true
				}
			}
		}
	}
	return false
}

func readJSON(path string, v interface{}) error {
	data, err := os.ReadFile(path)
	if err != nil {
		return err
	}
	return json.Unmarshal(data, v)
}

func writeJSON(path string, v interface{}) {
	data, _ := json.MarshalIndent(v, "", " ")
	os.WriteFile(path, append(data, '\n'), 0o644)
}

func writeEvidenceBroken(verif, prop, tier string, seed int, why string, wall float64) {
	ev := map[string]interface{}{
		"property_id": prop, "tier": tier, "seed": seed, "level": "proof",
		"coverage": map[string]interface{}{"obligations": 1, "discharged": 0, "checker_cmd": "bin/check " + prop, "trusted_base": []string{}, "explanation": why},
		"assumptions": []string{"undecided: " + why}, "wall_s": wall, "violations": 0,
	}
	os.MkdirAll(filepath.Join(verif, "evidence"), 0o755)
	writeJSON(filepath.Join(verif, "evidence", prop+".json"), ev)
}

type replayResult struct {
	Path       string
	Reproduced bool
}

var nonWord = regexp.MustCompile(`[^A-Za-z0-9_.-]+`)

// writeReplay records the failed obligation (with the solver's model where there is one) and, when a
// replay template is registered for the function, searches for a failing input on the real code.
func writeReplay(repo, verif, dir, prop string, o *Obligation, fr *FuncResult, prelude string, specs []ReplaySpec) replayResult {
	os.MkdirAll(dir, 0o755)
	path := filepath.Join(dir, nonWord.ReplaceAllString(o.Name, "_")+".json")
	rec := map[string]interface{}{
		"property": prop, "obligation": o.Name, "description": o.Desc, "function": o.Func, "position": o.Pos,
		"verdict": o.Result.Status, "backend": o.Result.Backend, "solver_output": trunc(o.Result.Output, 4000), "tried": o.Result.Tried,
	}
	// ask the solver for a model of the inputs when the obligation is refuted
	if o.Result.Status == "sat" && fr != nil {
		rec["counterexample"] = modelOf(fr, prelude, o)
	}
	res := replayResult{Path: path}
	for _, sp := range specs {
		re, err := regexp.Compile(sp.Match)
		if err != nil || !re.MatchString(o.Name) {
			continue
		}
		out, failed := runReplayTemplate(repo, verif, sp, o.Name)
		rec["replay"] = map[string]interface{}{"template": sp.Template, "package": sp.Pkg, "test": sp.Run, "reproduced_on_real_code": failed, "output": trunc(out, 6000),
			"command": fmt.Sprintf("bin/check %s --replay %s", prop, path)}
		res.Reproduced = failed
		break
	}
	writeJSON(path, rec)
	return res
}

// modelOf re-runs the refuted query with get-model restricted to the function's inputs.
func modelOf(fr *FuncResult, prelude string, o *Obligation) map[string]string {
	out := map[string]string{}
	var syms []string
	for _, l := range fr.VC.lines[:o.Prefix] {
		if strings.HasPrefix(l, "(declare-fun p_") || strings.HasPrefix(l, "(declare-fun fr_") {
			f := strings.Fields(l)
			if len(f) >= 4 && f[2] == "()" {
				syms = append(syms, f[1])
			}
		}
	}
	if len(syms) == 0 {
		return out
	}
	if len(syms) > 24 {
		syms = syms[:24]
	}
	o2 := *o
	o2.Watch = nil
	for _, s := range syms {
		o2.Watch = append(o2.Watch, [2]string{s, s})
	}
	q := fr.VC.Query(prelude, &o2)
	dir, err := os.MkdirTemp("", "govc-m-")
	if err != nil {
		return out
	}
	defer os.RemoveAll(dir)
	file := filepath.Join(dir, "m.smt2")
	os.WriteFile(file, []byte(q), 0o644)
	r := SolveFile(file, 10)
	if r.Status == "sat" {
		lines := strings.SplitN(r.Output, "\n", 2)
		if len(lines) == 2 {
			out["values"] = trunc(strings.TrimSpace(lines[1]), 6000)
		}
	}
	return out
}
