package main

// Calls: contracts at call sites, inlining, built-ins, loop cutting.

import (
	"go/constant"
	"fmt"
	"go/token"
	"go/types"
	"sort"
	"strings"

	"golang.org/x/tools/go/ssa"
)

// Loc is one location of a modifies clause, evaluated in the pre-state.
type Loc struct {
	Heap  string
	HSort Sort
	Base  string
	Field int    // >=0: only this field of the struct at Base
	FT    types.Type // struct type for Field
	Key   string // != "": only this entry of the map/array at Base
	All   bool   // whole heap
	Cond  string // != "": the location is only in the set when Cond holds (footprints chosen by dynamic type)
}

func (f *Frame) call(i *ssa.Call, st *PState) {
	res := f.callCommon(&i.Call, i, st, i.Type())
	f.vals[i] = res
}

func (f *Frame) callCommon(c *ssa.CallCommon, in ssa.Instruction, st *PState, rt types.Type) Val {
	ex := f.ex
	var args []Val
	for _, a := range c.Args {
		args = append(args, f.val(a, st))
	}
	if ex.aim != nil {
		return f.aimCall(c, args, in, st, rt)
	}
	if c.IsInvoke() {
		recv := f.val(c.Value, st)
		f.safety(st, "nil-deref", in, not(eq(app("itag", recv.T), "0")), "method call on possibly nil interface "+c.Method.Name())
		if v, ok := f.serializerInvoke(c, args, in, st, rt); ok {
			return v
		}
		if ct := ex.P.IfaceMethodContract(c.Value.Type(), c.Method.Name()); ct != nil {
			sig := c.Method.Type().(*types.Signature)
			return f.applyContract(ct, nil, sig, append([]Val{recv}, args...), in, st, rt, true)
		}
		// error.Error() and Stringer are pure
		if c.Method.Name() == "Error" || c.Method.Name() == "String" {
			return ex.havocVal("str", rt)
		}
		return f.havocCall(fmt.Sprintf("invoke %s.%s", types.TypeString(c.Value.Type(), nil), c.Method.Name()), in, st, rt, args)
	}
	if b, ok := c.Value.(*ssa.Builtin); ok {
		return f.builtin(b, c, args, in, st, rt)
	}
	var callee *ssa.Function
	var bindings []Val
	if fn := c.StaticCallee(); fn != nil {
		callee = fn
		if mc, ok := c.Value.(*ssa.MakeClosure); ok {
			for _, b := range mc.Bindings {
				bindings = append(bindings, f.val(b, st))
			}
		}
	} else {
		v := f.val(c.Value, st)
		if v.Clos != nil {
			callee = v.Clos.Fn.(*ssa.Function)
			bindings = v.Clos.Bindings
		} else if ex.iterSelf != nil && tracesToParam(c.Value, ex.iterSelf.param, 0) {
			return f.selfYield(args, in, st, rt)
		}
	}
	if callee == nil {
		if tc := ex.P.ContractFor(ex.top); tc != nil && tc.DynPure {
			ex.vc.trusted["dynamic calls in "+shortFn(ex.top)+" are assumed to modify nothing (dyncalls pure)"] = true
			return ex.havocVal("dyn", rt)
		}
		return f.havocCall("dynamic call", in, st, rt, args)
	}
	if callee.String() == "fmt.Sprintf" {
		if v, ok := f.sprintfModel(c, in, st, rt); ok {
			return v
		}
	}
	return f.callFunction(callee, args, bindings, in, st, rt)
}

// callFunction dispatches a call of a known function: external model, contract, inlining, havoc.
func (f *Frame) callFunction(callee *ssa.Function, args, bindings []Val, in ssa.Instruction, st *PState, rt types.Type) Val {
	ex := f.ex
	// external models first
	if v, ok := f.externalModel(callee, args, in, st, rt); ok {
		return v
	}
	if ct := ex.P.ContractFor(callee); ct != nil && !ct.Inline {
		return f.applyContract(ct, callee, callee.Signature, args, in, st, rt, false)
	}
	if f.canInline(callee) {
		return f.inline(callee, args, bindings, in, st, rt)
	}
	return f.havocCall(callee.String(), in, st, rt, args)
}

// sprintfModel: fmt.Sprintf with a constant format made of literal text and plain %s / %d / %v verbs is the
// left-associated concatenation of the pieces. A %s/%v operand is a string, a byte slice without methods (its
// content), or a value whose static type has a String() string method and no Format/Error/GoString method (the
// result of that method, through its contract); a %d/%v operand of integer type is its decimal form (int_str).
// Anything else: not modelled (the generic T-PURE havoc applies).
func (f *Frame) sprintfModel(c *ssa.CallCommon, in ssa.Instruction, st *PState, rt types.Type) (Val, bool) {
	ex := f.ex
	if len(c.Args) != 2 {
		return Val{}, false
	}
	fc, ok := c.Args[0].(*ssa.Const)
	if !ok || fc.Value == nil || fc.Value.Kind() != constant.String {
		return Val{}, false
	}
	format := constant.StringVal(fc.Value)
	// operands: the variadic slice is `slice (new [n]interface{})[:]` filled by stores through IndexAddr
	var ops []ssa.Value
	switch va := c.Args[1].(type) {
	case *ssa.Const:
		if !va.IsNil() {
			return Val{}, false
		}
	case *ssa.Slice:
		al, ok := va.X.(*ssa.Alloc)
		if !ok || va.Low != nil || va.High != nil {
			return Val{}, false
		}
		at, ok := al.Type().Underlying().(*types.Pointer).Elem().Underlying().(*types.Array)
		if !ok {
			return Val{}, false
		}
		ops = make([]ssa.Value, at.Len())
		for _, r := range *al.Referrers() {
			switch x := r.(type) {
			case *ssa.IndexAddr:
				ic, ok := x.Index.(*ssa.Const)
				if !ok {
					return Val{}, false
				}
				k := int(ic.Int64())
				for _, r2 := range *x.Referrers() {
					sto, ok := r2.(*ssa.Store)
					if !ok || sto.Addr != x || k < 0 || k >= len(ops) || ops[k] != nil {
						return Val{}, false
					}
					mi, ok := sto.Val.(*ssa.MakeInterface)
					if !ok {
						return Val{}, false
					}
					ops[k] = mi.X
				}
			case *ssa.Slice:
				if x != va {
					return Val{}, false
				}
			default:
				return Val{}, false
			}
		}
		for _, o := range ops {
			if o == nil {
				return Val{}, false
			}
		}
	default:
		return Val{}, false
	}
	acc := "str_empty"
	lit := ""
	flush := func() {
		if lit != "" {
			acc = ex.strCat(acc, ex.reg.StrLit(lit))
			lit = ""
		}
	}
	k := 0
	for i := 0; i < len(format); i++ {
		ch := format[i]
		if ch != '%' {
			lit += string(ch)
			continue
		}
		if i+1 >= len(format) {
			return Val{}, false
		}
		i++
		verb := format[i]
		if verb == '%' {
			lit += "%"
			continue
		}
		if verb != 's' && verb != 'd' && verb != 'v' || k >= len(ops) {
			return Val{}, false
		}
		op := ops[k]
		k++
		piece, ok := f.sprintfPiece(verb, op, in, st)
		if !ok {
			return Val{}, false
		}
		flush()
		acc = ex.strCat(acc, piece)
	}
	if k != len(ops) {
		return Val{}, false
	}
	flush()
	ex.vc.trusted["T-FMT fmt.Sprintf with a constant format of literal text and %s/%d/%v verbs is the concatenation of the literal pieces, the decimal form of integer operands (int_str) and the String() result / content of the other operands"] = true
	return Val{T: ex.strInv(acc), S: SStr, GT: rt}, true
}

func (f *Frame) sprintfPiece(verb byte, op ssa.Value, in ssa.Instruction, st *PState) (string, bool) {
	ex := f.ex
	t := op.Type()
	ms := ex.P.prog.MethodSets.MethodSet(t)
	has := func(n string) *types.Selection {
		for i := 0; i < ms.Len(); i++ {
			if ms.At(i).Obj().Name() == n {
				return ms.At(i)
			}
		}
		return nil
	}
	if has("Format") != nil || has("Error") != nil || has("GoString") != nil {
		return "", false
	}
	v := f.val(op, st)
	if sel := has("String"); sel != nil {
		if verb == 'd' {
			return "", false
		}
		sig, ok := sel.Type().(*types.Signature)
		if !ok || sig.Params().Len() != 0 || sig.Results().Len() != 1 || ex.reg.SortOf(sig.Results().At(0).Type()) != SStr {
			return "", false
		}
		if _, isPtr := t.Underlying().(*types.Pointer); isPtr {
			return "", false // a nil pointer prints "<nil>": not modelled
		}
		if _, isIface := t.Underlying().(*types.Interface); isIface {
			return "", false
		}
		fn := ex.P.prog.MethodValue(sel)
		if fn == nil {
			return "", false
		}
		r := f.callFunction(fn, []Val{v}, nil, in, st, sig.Results().At(0).Type())
		if r.S != SStr {
			return "", false
		}
		return r.T, true
	}
	switch ex.reg.SortOf(t) {
	case SStr:
		if verb == 'd' {
			return "", false
		}
		return f.plain(v, st), true
	case SBytes:
		if verb != 's' {
			return "", false
		}
		return app("b_str", f.plain(v, st)), true
	case SInt:
		if b, ok := t.Underlying().(*types.Basic); ok && b.Info()&types.IsInteger != 0 && verb != 's' {
			return app("int_str", f.plain(v, st)), true
		}
	}
	return "", false
}

func (f *Frame) canInline(fn *ssa.Function) bool {
	ex := f.ex
	if fn.Blocks == nil {
		return false
	}
	if ex.depth >= 6 {
		return false
	}
	for _, s := range ex.stack {
		if s == fn {
			return false
		}
	}
	n := 0
	for _, b := range fn.Blocks {
		n += len(b.Instrs)
	}
	if n > ex.maxInline {
		return false
	}
	if ex.aim != nil {
		return true // aim mode: loop heads forget everything the body may re-aim; no invariants needed
	}
	// loops need invariants: only inline loop-free bodies (or bodies whose contract supplies invariants)
	for _, b := range fn.Blocks {
		for _, s := range b.Succs {
			if s.Dominates(b) {
				if ct := ex.P.ContractFor(fn); ct == nil || len(ct.Invs) == 0 {
					return false
				}
			}
		}
	}
	return true
}

func (f *Frame) inline(fn *ssa.Function, args, bindings []Val, in ssa.Instruction, st *PState, rt types.Type) Val {
	ex := f.ex
	ex.vc.inlined[shortFn(fn)] = true
	nf := ex.newFrame(fn)
	nf.inlined = true
	// interior pointers passed as arguments: copy-in / copy-out
	type cpy struct {
		lv  *LValue
		ref string
		t   types.Type
	}
	var copies []cpy
	for k := range args {
		if args[k].LV != nil && (len(args[k].LV.Path) > 0 || args[k].LV.Glob != "") {
			pt := args[k].GT.Underlying().(*types.Pointer)
			r := ex.alloc(st, "cpin")
			hn, hs := ex.heapOfType(pt.Elem())
			cv := ex.loadLV(st, args[k].LV)
			ex.setH(st, hn, hs, sto(ex.H(st, hn, hs), r, cv))
			ex.vc.AssumeIf(st.reach, eq(sel(ex.H(st, hn, hs), r), cv)) // consequence of the store, stated for the e-graph
			copies = append(copies, cpy{args[k].LV, r, pt.Elem()})
			args[k] = Val{T: r, S: SInt, GT: args[k].GT}
		} else if args[k].LV != nil {
			args[k] = Val{T: args[k].LV.Base, S: SInt, GT: args[k].GT}
		}
	}
	nf.params = args
	nf.freeVars = bindings
	ex.depth++
	ex.stack = append(ex.stack, fn)
	ex.frames = append(ex.frames, nf)
	rets := nf.run(st.clone())
	ex.frames = ex.frames[:len(ex.frames)-1]
	ex.stack = ex.stack[:len(ex.stack)-1]
	ex.depth--
	if len(rets) == 0 {
		st.reach = "false"
		return ex.havocVal("noret", rt)
	}
	// merge return sites
	var edges []inEdge
	for k := range rets {
		edges = append(edges, inEdge{guard: rets[k].st.reach, st: rets[k].st, idx: k})
	}
	merged := nf.mergeStates(edges)
	*st = *merged
	var out Val
	nres := fn.Signature.Results().Len()
	mk := func(j int) Val {
		t := ""
		var clos *Closure
		for k := len(rets) - 1; k >= 0; k-- {
			if t == "" {
				t = rets[k].results[j].T
			} else {
				t = ite(edges[k].guard, rets[k].results[j].T, t)
			}
			if rets[k].results[j].Clos != nil {
				clos = rets[k].results[j].Clos
			}
		}
		rtj := fn.Signature.Results().At(j).Type()
		s := ex.reg.SortOf(rtj)
		return Val{T: ex.vc.Define("ret", s, t), S: s, GT: rtj, Clos: clos}
	}
	switch nres {
	case 0:
		out = Val{T: "0", S: SInt}
	case 1:
		out = mk(0)
	default:
		out = Val{S: "Tuple", GT: rt}
		for j := 0; j < nres; j++ {
			out.Tuple = append(out.Tuple, mk(j))
		}
	}
	for _, c := range copies {
		ex.copyOut(st, c.lv, c.ref, c.t)
	}
	return out
}

// havocCall: unknown callee — results arbitrary, all heaps arbitrary.
func (f *Frame) havocCall(name string, in ssa.Instruction, st *PState, rt types.Type, args []Val) Val {
	ex := f.ex
	ex.vc.unverifiedCallees[strings.ReplaceAll(name, "github.com/Oneledger/protocol/", "")] = true
	f.havocAllKeep(st)
	return ex.havocVal("hv", rt)
}

func (f *Frame) havocAll(st *PState) {
	ex := f.ex
	var pre *PState
	if ex.origins != nil {
		pre = st.clone()
	}
	keepMC, hadMC := st.heap[mustCallHeap]
	st.heap = map[string]string{}
	if hadMC {
		st.heap[mustCallHeap] = keepMC // ghost record of the hooks called so far: no callee can touch it
	}
	st.epoch = ex.newEpoch()
	if ex.origins != nil {
		mod := ex.curMod
		if mod == nil {
			mod = ex.P.aimInfo().mod(ex.top) // a loop head: whatever the function under verification may re-aim
		}
		ex.origins[st.epoch] = &epochOrigin{pre: pre, mod: mod}
	}
	nb := ex.vc.Fresh("brk", SInt)
	ex.vc.Assume(fmt.Sprintf("(>= %s %s)", nb, st.brk))
	st.brk = nb
}

// havocAllKeep: a call without a frame. Everything is arbitrary afterwards except the caller's own local cells
// whose address never leaves the function (the callee cannot hold a pointer to them).
func (f *Frame) havocAllKeep(st *PState) {
	if f.ex.aim != nil {
		f.havocAll(st)
		return
	}
	before := st.clone()
	f.havocAll(st)
	f.keepUnwrittenCellsX(before, st, nil, nil, true)
}

// bindParams builds the spec variable environment of a contract.
func (f *Frame) specVarsFor(ct *Contract, fn *ssa.Function, sig *types.Signature, args []Val, invoke bool) map[string]Val {
	vars := map[string]Val{}
	k := 0
	if invoke {
		vars["self"] = args[0]
		k = 1
	} else if sig.Recv() != nil && fn != nil {
		// receiver is Params[0] (functions of dependencies have no parameter objects)
		if len(fn.Params) > 0 {
			vars[fn.Params[0].Name()] = args[0]
		}
		vars["self"] = args[0]
		k = 1
	}
	ps := sig.Params()
	for j := 0; j < ps.Len(); j++ {
		name := ps.At(j).Name()
		if fn != nil && k+j < len(fn.Params) {
			name = fn.Params[k+j].Name()
		}
		if k+j < len(args) {
			if name != "" && name != "_" {
				vars[name] = args[k+j]
			}
			vars[fmt.Sprintf("arg%d", j)] = args[k+j]
		}
	}
	return vars
}

func bindResults(vars map[string]Val, sig *types.Signature, res []Val) {
	rs := sig.Results()
	for j := 0; j < rs.Len() && j < len(res); j++ {
		vars[fmt.Sprintf("result%d", j)] = res[j]
		if n := rs.At(j).Name(); n != "" && n != "_" {
			vars[n] = res[j]
		}
		// conventional names
		if isErrorType(rs.At(j).Type()) {
			if _, ok := vars["err"]; !ok {
				vars["err"] = res[j]
			}
		}
	}
	if rs.Len() >= 1 && len(res) >= 1 {
		vars["result"] = res[0]
	}
}

func isErrorType(t types.Type) bool {
	return types.Identical(t, types.Universe.Lookup("error").Type())
}

func (f *Frame) plainArgs(args []Val, st *PState) []Val {
	out := make([]Val, len(args))
	for k, a := range args {
		if a.LV != nil {
			out[k] = Val{T: f.plain(a, st), S: SInt, GT: a.GT}
		} else {
			out[k] = a
		}
	}
	return out
}

// applyContract: assert requires, havoc the frame, assume ensures.
func (f *Frame) applyContract(ct *Contract, fn *ssa.Function, sig *types.Signature, args []Val, in ssa.Instruction, st *PState, rt types.Type, invoke bool) Val {
	ex := f.ex
	name := ct.Target
	ex.vc.usedContracts[shortPkg(ct.Pkg)+"."+ct.Target] = true
	if ct.Trusted {
		ex.vc.trusted[shortPkg(ct.Pkg)+"."+ct.Target] = true
	}
	if ct.TrustFrame {
		ex.vc.trusted[shortPkg(ct.Pkg)+"."+ct.Target+" trustframe (modifies clause assumed, not checked on the body)"] = true
	}
	// interior-pointer receivers/arguments: copy-in / copy-out
	type cpy struct {
		lv  *LValue
		ref string
		t   types.Type
	}
	var copies []cpy
	args = append([]Val{}, args...)
	for k := range args {
		if args[k].LV != nil && (len(args[k].LV.Path) > 0 || args[k].LV.Glob != "") {
			pt := args[k].GT.Underlying().(*types.Pointer)
			r := ex.alloc(st, "cpin")
			hn, hs := ex.heapOfType(pt.Elem())
			cv := ex.loadLV(st, args[k].LV)
			ex.setH(st, hn, hs, sto(ex.H(st, hn, hs), r, cv))
			ex.vc.AssumeIf(st.reach, eq(sel(ex.H(st, hn, hs), r), cv)) // consequence of the store, stated for the e-graph
			copies = append(copies, cpy{args[k].LV, r, pt.Elem()})
			args[k] = Val{T: r, S: SInt, GT: args[k].GT}
		} else if args[k].LV != nil {
			args[k] = Val{T: args[k].LV.Base, S: SInt, GT: args[k].GT}
		}
	}
	pre := st.clone()
	vars := f.specVarsFor(ct, fn, sig, args, invoke)
	env := &SpecEnv{ex: ex, vars: vars, stypes: map[string]*SType{}, cur: pre, old: pre, pkg: ex.P.typesPkg(ct.Pkg), expand: ex.expands, what: "pre of " + name}
	_, imc := ex.P.mergedContract(ct)
	reqs := ct.Requires
	if imc != nil && !invoke {
		reqs = imc.Requires
	}
	for _, rq := range reqs {
		tag := rq.Tag
		if tag == "" {
			tag = "pre"
		}
		goal := env.boolE(rq.Expr)
		ex.vc.AddObligation(&Obligation{
			Name: fmt.Sprintf("%s/%s/pre[%s]%s", tag, ex.oblPrefix, name, f.inlineSuffix()),
			Tag:  tag, Kind: "pre", Func: ex.top.String(), Goal: implies(st.reach, goal), Pos: f.pos(in),
			Desc: fmt.Sprintf("precondition of %s: %s", name, rq.Src),
		})
		ex.vc.AssumeIf(st.reach, goal)
	}
	if ct.Iterator {
		if v, ok := f.iterateCall(ct, sig, args, vars, pre, in, st, rt); ok {
			for _, c := range copies {
				ex.copyOut(st, c.lv, c.ref, c.t)
			}
			return v
		}
	}
	// results
	var res []Val
	rs := sig.Results()
	for j := 0; j < rs.Len(); j++ {
		res = append(res, ex.havocVal("r_"+sanitize(name), rs.At(j).Type()))
	}
	// new break
	nb := ex.vc.Fresh("brk", SInt)
	ex.vc.Assume(fmt.Sprintf("(>= %s %s)", nb, pre.brk))
	// post heap
	if ct.ModAll || (len(ct.Modifies) == 0 && !ct.ModNothing) {
		f.havocAllKeep(st)
		st.brk = nb
	} else {
		env.what = "modifies of " + name
		mods := ct.Modifies
		if ex.topFrame != nil && ex.topFrame.contract != nil && ex.topFrame.contract.CalleeTrusts != nil {
			for _, en := range ex.topFrame.contract.CalleeTrusts[strings.ReplaceAll(ct.Target, " ", "")] {
				if en.Trusted {
					mods = append(append([]Clause{}, mods...), en)
				}
			}
		}
		locs := f.evalLocs(env, mods)
		// fresh(result) objects are implicitly modifiable
		resVars := map[string]Val{}
		bindResults(resVars, sig, res)
		for _, en := range ct.Ensures {
			collectFresh(en.Expr, func(a *SExpr) {
				if a.Op == "var" {
					if v, ok := resVars[a.Name]; ok && v.GT != nil {
						if pt, ok := v.GT.Underlying().(*types.Pointer); ok {
							hn, hs := ex.heapOfType(pt.Elem())
							// the cell is only writable by the callee if the result really is a new object
							locs = append(locs, Loc{Heap: hn, HSort: hs, Base: v.T, Field: -1, Cond: fmt.Sprintf("(< %s %s)", pre.brk, v.T)})
						}
					}
				}
			})
		}
		f.havocLocs(st, locs)
		st.brk = nb
	}
	for _, r := range res {
		f.assumeAllocated(r.T, r.GT, st, 0)
	}
	// ensures
	pvars := map[string]Val{}
	for k, v := range vars {
		pvars[k] = v
	}
	bindResults(pvars, sig, res)
	penv := &SpecEnv{ex: ex, vars: pvars, stypes: map[string]*SType{}, cur: st, old: pre, pkg: ex.P.typesPkg(ct.Pkg), brkPre: pre.brk, brkPost: nb, expand: ex.expands, what: "post of " + name}
	if imc != nil && !invoke {
		for _, en := range imc.Ensures {
			ex.vc.AssumeIf(st.reach, penv.boolE(en.Expr))
		}
	}
	for _, en := range ct.Ensures {
		ex.vc.AssumeIf(st.reach, penv.boolE(en.Expr))
	}
	for _, en := range ct.Trusts {
		ex.vc.AssumeIf(st.reach, penv.boolE(en.Expr))
		ex.vc.trusted[shortPkg(ct.Pkg)+"."+ct.Target+" trusts "+en.Src] = true
	}
	if ex.topFrame != nil && ex.topFrame.contract != nil && ex.topFrame.contract.CalleeTrusts != nil {
		// extra trusted postconditions of this callee, stated by (and used only in) the function under verification
		for _, en := range ex.topFrame.contract.CalleeTrusts[strings.ReplaceAll(ct.Target, " ", "")] {
			if en.Trusted {
				continue // a frame extension (handled with the modifies clause)
			}
			ex.vc.AssumeIf(st.reach, penv.boolE(en.Expr))
			ex.vc.trusted[shortFn(ex.top)+" calleetrusts "+ct.Target+" :: "+en.Src] = true
		}
	}
	for _, en := range ct.Grants {
		ex.vc.AssumeIf(st.reach, penv.boolE(en.Expr))
		ex.vc.trusted["granted at call sites of "+shortPkg(ct.Pkg)+"."+ct.Target+" (history token / call-graph frame, see forbids): "+en.Src] = true
	}
	for _, c := range copies {
		ex.copyOut(st, c.lv, c.ref, c.t)
	}
	switch len(res) {
	case 0:
		return Val{T: "0", S: SInt}
	case 1:
		return res[0]
	}
	return Val{S: "Tuple", GT: rt, Tuple: res}
}

func (f *Frame) effectiveRequires(ct *Contract) []Clause { return ct.Requires }

func collectFresh(e *SExpr, fn func(arg *SExpr)) {
	if e == nil {
		return
	}
	if e.Op == "call" && e.Name == "fresh" && len(e.Args) == 1 {
		fn(e.Args[0])
	}
	for _, a := range e.Args {
		collectFresh(a, fn)
	}
}

// evalLocs evaluates modifies clauses into locations.
func (f *Frame) evalLocs(env *SpecEnv, mods []Clause) []Loc {
	var out []Loc
	for _, m := range mods {
		out = append(out, env.evalLoc(m.Expr)...)
	}
	return out
}

func (env *SpecEnv) evalLoc(e *SExpr) []Loc {
	ex := env.ex
	switch e.Op {
	case "field":
		base := env.Eval(e.Args[0])
		if base.GT == nil {
			env.fail("modifies: untyped base in %s", e.String())
		}
		path, _, ok := fieldPath(base.GT, e.Name)
		if !ok || len(path) != 1 {
			env.fail("modifies: cannot resolve field %s (promoted fields unsupported)", e.String())
		}
		pt, ok := base.GT.Underlying().(*types.Pointer)
		if !ok {
			env.fail("modifies: field of non-pointer %s", e.String())
		}
		hn, hs := ex.heapOfType(pt.Elem())
		return []Loc{{Heap: hn, HSort: hs, Base: base.T, Field: path[0], FT: pt.Elem()}}
	case "unop":
		if e.Name == "*" {
			base := env.Eval(e.Args[0])
			pt, ok := base.GT.Underlying().(*types.Pointer)
			if !ok {
				env.fail("modifies: deref of non-pointer %s", e.String())
			}
			hn, hs := ex.heapOfType(pt.Elem())
			return []Loc{{Heap: hn, HSort: hs, Base: base.T, Field: -1}}
		}
	case "index":
		base := env.Eval(e.Args[0])
		key := env.Eval(e.Args[1])
		if base.GT != nil {
			if mt, ok := base.GT.Underlying().(*types.Map); ok {
				dn, ds, vn, vs, _, _ := ex.mapHeaps(mt)
				return []Loc{{Heap: dn, HSort: ds, Base: base.T, Field: -1, Key: key.T}, {Heap: vn, HSort: vs, Base: base.T, Field: -1, Key: key.T}}
			}
		}
		// model field entry: name(x)[k]
		if e.Args[0].Op == "call" {
			if m := ex.P.models[e.Args[0].Name]; m != nil {
				x := env.Eval(e.Args[0].Args[0])
				vt := env.resolveTypeIn(m.Type, m.Pkg)
				return []Loc{{Heap: "G:" + m.Name, HSort: ArrS(SInt, vt.S), Base: env.ref(x, e.Args[0].Args[0]), Field: -1, Key: key.T}}
			}
		}
	case "call":
		switch e.Name {
		case "mapof":
			base := env.Eval(e.Args[0])
			mt, ok := base.GT.Underlying().(*types.Map)
			if !ok {
				env.fail("mapof of non-map")
			}
			dn, ds, vn, vs, _, _ := ex.mapHeaps(mt)
			return []Loc{{Heap: dn, HSort: ds, Base: base.T, Field: -1}, {Heap: vn, HSort: vs, Base: base.T, Field: -1}}
		case "elems":
			v := env.Eval(e.Args[0])
			sl := v.GT.Underlying().(*types.Slice)
			es := ex.reg.SortOf(sl.Elem())
			hn, hs := ex.sliceHeap(es)
			return []Loc{{Heap: hn, HSort: hs, Base: app("arr_"+string(v.S), v.T), Field: -1}}
		case "heap":
			// heap("T"): all objects of Go type T
			st := env.resolveType(e.Args[0].Name)
			hn, hs := ex.heapOfType(st.GT)
			return []Loc{{Heap: hn, HSort: hs, All: true, Field: -1}}
		case "allmodel":
			m := ex.P.models[e.Args[0].Name]
			if m == nil {
				env.fail("allmodel: unknown model %s", e.Args[0].Name)
			}
			vt := env.resolveTypeIn(m.Type, m.Pkg)
			return []Loc{{Heap: "G:" + m.Name, HSort: ArrS(SInt, vt.S), All: true, Field: -1}}
		}
		if m := ex.P.models[e.Name]; m != nil {
			x := env.Eval(e.Args[0])
			// a model field defined (non-pointwise) through another location: the location is that of its definition,
			// so that `modifies m(x)` and reads of m(x) talk about the same cells
			if x.GT != nil {
				if rp := ex.P.reprFor(m.Name, x.GT); rp != nil && rp.Index == nil && env.expandOK(rp) && (rp.Body.Op == "call" || rp.Body.Op == "field" || rp.Body.Op == "index") {
					n := env.child()
					n.f = nil
					n.rdepth = env.rdepth + 1
					if p := ex.P.typesPkg(rp.Pkg); p != nil {
						n.pkg = p
					}
					n.vars = map[string]Val{rp.Self: x}
					if rp.Body.Op != "call" || ex.P.models[rp.Body.Name] != nil {
						return n.evalLoc(rp.Body)
					}
				}
			}
			vt := env.resolveTypeIn(m.Type, m.Pkg)
			return []Loc{{Heap: "G:" + m.Name, HSort: ArrS(SInt, vt.S), Base: env.ref(x, e.Args[0]), Field: -1}}
		}
		if fps := ex.P.footprints[e.Name]; fps != nil {
			x := env.Eval(e.Args[0])
			var out []Loc
			expandFP := func(fp *Footprint, self Val, cond string) {
				n := env.child()
				n.f = nil
				if p := ex.P.typesPkg(fp.Pkg); p != nil {
					n.pkg = p
				}
				n.vars = map[string]Val{fp.Self: self}
				for _, le := range fp.Locs {
					for _, l := range n.evalLoc(le) {
						if cond != "" {
							if l.Cond != "" {
								l.Cond = and(cond, l.Cond)
							} else {
								l.Cond = cond
							}
						}
						out = append(out, l)
					}
				}
			}
			for _, fp := range fps {
				ft := env.resolveTypeIn(fp.Type, fp.Pkg)
				if x.GT != nil && types.Identical(ft.GT, x.GT) {
					expandFP(fp, x, "")
					return out
				}
			}
			if x.S == SIface {
				for _, fp := range fps {
					// only leaf footprints (not defined through another object's footprint) are chosen by dynamic type
					leaf := true
					for _, le := range fp.Locs {
						if le.Op == "call" && ex.P.footprints[le.Name] != nil {
							leaf = false
						}
					}
					if !leaf {
						continue
					}
					ft := env.resolveTypeIn(fp.Type, fp.Pkg)
					if _, isPtr := ft.GT.Underlying().(*types.Pointer); !isPtr {
						continue
					}
					expandFP(fp, Val{T: app("ival", x.T), S: SInt, GT: ft.GT}, eq(app("itag", x.T), fmt.Sprint(ex.reg.TypeTag(ft.GT))))
				}
			}
			return out
		}
	}
	env.fail("unsupported modifies location %s", e.String())
	return nil
}

// havocLocs replaces the listed locations by arbitrary values.
func (f *Frame) havocLocs(st *PState, locs []Loc) {
	ex := f.ex
	byHeap := map[string][]Loc{}
	var order []string
	for _, l := range locs {
		if _, ok := byHeap[l.Heap]; !ok {
			order = append(order, l.Heap)
		}
		byHeap[l.Heap] = append(byHeap[l.Heap], l)
	}
	for _, hn := range order {
		ls := byHeap[hn]
		hs := ls[0].HSort
		fresh := ex.vc.Fresh("hv_"+sanitize(hn), hs)
		all := false
		for _, l := range ls {
			if l.All {
				all = true
			}
		}
		if all {
			ex.hsorts[hn] = hs
			st.heap[hn] = fresh
			continue
		}
		h := ex.H(st, hn, hs)
		for _, l := range ls {
			before := h
			switch {
			case l.Field >= 0:
				si := ex.reg.StructInfoOf(l.FT)
				h = sto(h, l.Base, ex.reg.UpdateField(si, sel(h, l.Base), l.Field, app(si.Fields[l.Field].Acc, sel(fresh, l.Base))))
			case l.Key != "":
				h = sto(h, l.Base, sto(sel(h, l.Base), l.Key, sel(sel(fresh, l.Base), l.Key)))
			default:
				h = sto(h, l.Base, sel(fresh, l.Base))
			}
			if l.Cond != "" {
				h = ite(l.Cond, h, before)
			}
			h = ex.vc.Define("hc_"+sanitize(hn), hs, h)
		}
		ex.hsorts[hn] = hs
		st.heap[hn] = h
	}
}

// ---------------------------------------------------------------- built-ins

func (f *Frame) builtin(b *ssa.Builtin, c *ssa.CallCommon, args []Val, in ssa.Instruction, st *PState, rt types.Type) Val {
	ex := f.ex
	switch b.Name() {
	case "len":
		x := args[0]
		switch u := c.Args[0].Type().Underlying().(type) {
		case *types.Basic:
			return Val{T: app("str_len", x.T), S: SInt, GT: rt}
		case *types.Slice:
			if isByteSlice(c.Args[0].Type()) {
				return Val{T: app("str_len", app("b_str", x.T)), S: SInt, GT: rt}
			}
			return Val{T: app("len_"+string(x.S), x.T), S: SInt, GT: rt}
		case *types.Map:
			fn := ex.reg.UFun("map_len_"+sortTag(ex.reg.SortOf(u.Key())), []Sort{ArrS(ex.reg.SortOf(u.Key()), SBool)}, SInt)
			dn, ds, _, _, _, _ := ex.mapHeaps(u)
			t := ex.vc.Define("maplen", SInt, ite(eq(x.T, "0"), "0", app(fn, sel(ex.H(st, dn, ds), x.T))))
			ex.vc.Assume(fmt.Sprintf("(>= %s 0)", t))
			return Val{T: t, S: SInt, GT: rt}
		case *types.Array:
			return Val{T: fmt.Sprint(u.Len()), S: SInt, GT: rt}
		case *types.Pointer:
			if a, ok := u.Elem().Underlying().(*types.Array); ok {
				return Val{T: fmt.Sprint(a.Len()), S: SInt, GT: rt}
			}
		}
		return ex.havocVal("len", rt)
	case "cap":
		v := ex.havocVal("cap", rt)
		ex.vc.Assume(fmt.Sprintf("(>= %s 0)", v.T))
		return v
	case "append":
		return f.appendBuiltin(c, args, in, st, rt)
	case "copy":
		if isByteSlice(c.Args[0].Type()) {
			ex.vc.Unsupported(fmt.Sprintf("%s: copy into []byte is not modelled", f.fn.String()))
			return ex.havocVal("copy", rt)
		}
		// havoc destination elements
		x := args[0]
		sl := c.Args[0].Type().Underlying().(*types.Slice)
		es := ex.reg.SortOf(sl.Elem())
		hn, hs := ex.sliceHeap(es)
		f.havocLocs(st, []Loc{{Heap: hn, HSort: hs, Base: app("arr_"+string(x.S), x.T), Field: -1}})
		return ex.havocVal("copy", rt)
	case "delete":
		m, k := args[0], args[1]
		mt := c.Args[0].Type().Underlying().(*types.Map)
		dn, ds, _, _, _, _ := ex.mapHeaps(mt)
		d := ex.H(st, dn, ds)
		ex.setH(st, dn, ds, ite(eq(m.T, "0"), d, sto(d, m.T, sto(sel(d, m.T), k.T, "false"))))
		return Val{T: "0", S: SInt}
	case "print", "println":
		return Val{T: "0", S: SInt}
	case "recover":
		return Val{T: "iface_nil", S: SIface, GT: rt}
	case "ssa:wrapnilchk":
		f.safety(st, "nil-deref", in, not(eq(f.plain(args[0], st), "0")), "nil receiver in method value")
		return args[0]
	case "min", "max":
		return ex.havocVal(b.Name(), rt)
	}
	f.fail("builtin %s", b.Name())
	return Val{}
}

func (f *Frame) appendBuiltin(c *ssa.CallCommon, args []Val, in ssa.Instruction, st *PState, rt types.Type) Val {
	ex := f.ex
	a, b := args[0], args[1]
	if isByteSlice(rt) {
		var bs string
		if b.S == SStr {
			bs = b.T
		} else {
			bs = app("b_str", b.T)
		}
		as := app("b_str", a.T)
		cat := ex.strCatGeneral(as, bs)
		t := fmt.Sprintf("(mk_bytes (and (b_nil %s) (= %s str_empty)) %s)", a.T, bs, cat)
		return Val{T: ex.vc.Define("app", SBytes, t), S: SBytes, GT: rt}
	}
	s := ex.reg.SortOf(rt)
	sl := rt.Underlying().(*types.Slice)
	es := ex.reg.SortOf(sl.Elem())
	hn, hs := ex.sliceHeap(es)
	h := ex.H(st, hn, hs)
	lenA := app("len_"+string(s), a.T)
	offA := app("off_"+string(s), a.T)
	arrA := app("arr_"+string(s), a.T)
	lenB := app("len_"+string(s), b.T)
	offB := app("off_"+string(s), b.T)
	arrB := app("arr_"+string(s), b.T)
	r := ex.alloc(st, "append")
	// static length of b?
	n := -1
	if lb := staticLen(c.Args[1]); lb >= 0 {
		n = lb
	}
	var content string
	if n >= 0 && n <= 8 {
		content = ite(eq(arrA, "0"), ex.reg.ConstArray(SInt, es, ex.reg.ZeroValue(sl.Elem())), sel(h, arrA))
		content = ex.vc.Define("appc", ArrS(SInt, es), content)
		for k := 0; k < n; k++ {
			content = sto(content, fmt.Sprintf("(+ %s %s %d)", offA, lenA, k), sel(sel(h, arrB), fmt.Sprintf("(+ %s %d)", offB, k)))
		}
		ex.setH(st, hn, hs, sto(h, r, content))
		nl := fmt.Sprintf("(+ %s %d)", lenA, n)
		return Val{T: ex.vc.Define("app", s, fmt.Sprintf("(mk_%s %s %s %s)", s, r, offA, nl)), S: s, GT: rt}
	}
	// general case: quantified description of the new backing array
	na := ex.vc.Fresh("apparr", ArrS(SInt, es))
	ex.vc.Assume(fmt.Sprintf("(forall ((qi Int)) (! (=> (and (<= 0 qi) (< qi %s)) (= (select %s qi) (select (select %s %s) (+ %s qi)))) :pattern ((select %s qi))))", lenA, na, h, arrA, offA, na))
	ex.vc.Assume(fmt.Sprintf("(forall ((qi Int)) (! (=> (and (<= 0 qi) (< qi %s)) (= (select %s (+ %s qi)) (select (select %s %s) (+ %s qi)))) :pattern ((select %s (+ %s qi)))))", lenB, na, lenA, h, arrB, offB, na, lenA))
	ex.setH(st, hn, hs, sto(h, r, na))
	return Val{T: ex.vc.Define("app", s, fmt.Sprintf("(mk_%s %s 0 (+ %s %s))", s, r, lenA, lenB)), S: s, GT: rt}
}

func (ex *Exec) strCatGeneral(a, b string) string { return ex.strCat(a, b) }

// staticLen recognises the variadic-argument slice `new [n]T [:]`.
func staticLen(v ssa.Value) int {
	if s, ok := v.(*ssa.Slice); ok {
		if al, ok := s.X.(*ssa.Alloc); ok && s.Low == nil && s.High == nil {
			if at, ok := al.Type().(*types.Pointer).Elem().Underlying().(*types.Array); ok {
				return int(at.Len())
			}
		}
	}
	if c, ok := v.(*ssa.Const); ok && c.Value == nil {
		return 0
	}
	return -1
}

// ---------------------------------------------------------------- loops

func (f *Frame) invariantsFor(key string) []Clause {
	if f.contract == nil {
		return nil
	}
	var out []Clause
	for _, c := range f.contract.Invs[key] {
		for _, e := range splitConj(c.Expr) {
			if f.dropped[key+"|"+e.String()] {
				continue
			}
			out = append(out, Clause{Tag: c.Tag, Expr: e, Src: e.String()})
		}
	}
	return out
}

// usableInvariants drops (for the whole function) the invariant conjuncts that cannot be evaluated against the body
// (a local they name no longer exists, changed type, ...). The function is still verified with the remaining ones: the
// dropped conjunct's own obligations are reported as undecided, anything that depended on it fails as unproved.
func (f *Frame) usableInvariants(key string, env *SpecEnv) []Clause {
	var out []Clause
	for _, inv := range f.invariantsFor(key) {
		ok := func() (ok bool) {
			defer func() {
				if r := recover(); r != nil {
					if e, is := r.(*specErr); is {
						if f.dropped == nil {
							f.dropped = map[string]bool{}
						}
						f.dropped[key+"|"+inv.Src] = true
						msg := fmt.Sprintf("%s: invariant %s dropped, it cannot be evaluated against the body (%s): %s", shortFn(f.fn), key, e.msg, inv.Src)
						dup := false
						for _, d := range f.ex.vc.droppedInvs {
							if d == msg {
								dup = true
							}
						}
						if !dup {
							f.ex.vc.droppedInvs = append(f.ex.vc.droppedInvs, msg)
						}
						ok = false
						return
					}
					panic(r)
				}
			}()
			env.boolE(inv.Expr)
			return true
		}()
		if ok {
			out = append(out, inv)
		}
	}
	return out
}

func splitConj(e *SExpr) []*SExpr {
	if e.Op == "binop" && e.Name == "&&" {
		return append(splitConj(e.Args[0]), splitConj(e.Args[1])...)
	}
	return []*SExpr{e}
}

func (f *Frame) loopEnv(st *PState, phiVals map[ssa.Value]Val, h *ssa.BasicBlock) *SpecEnv {
	ex := f.ex
	vars := map[string]Val{}
	// parameters (entry values are x0)
	for i, p := range f.fn.Params {
		vars[p.Name()+"0"] = f.params[i]
	}
	// named phis of this header
	for _, in := range h.Instrs {
		phi, ok := in.(*ssa.Phi)
		if !ok {
			break
		}
		v := phiVals[phi]
		if phi.Comment == "rangeindex" {
			vars["$i"] = Val{T: fmt.Sprintf("(+ %s 1)", v.T), S: SInt, GT: types.Typ[types.Int]}
		} else if phi.Comment != "" {
			vars[phi.Comment] = v
		}
	}
	var pkg *types.Package
	if f.fn.Pkg != nil {
		pkg = f.fn.Pkg.Pkg
	} else if f.contract != nil {
		pkg = ex.P.typesPkg(f.contract.Pkg)
	}
	return &SpecEnv{ex: ex, f: f, vars: vars, stypes: map[string]*SType{}, cur: st, old: f.entry, pkg: pkg, expand: ex.expands, what: fmt.Sprintf("invariant loop%d of %s", f.loopOrd[h], f.fn.Name()), atBlock: h}
}

// resolveName maps a source-level variable name to its SSA value at the current point.
func (f *Frame) resolveName(name string, st *PState) (Val, bool) {
	cands := f.names[name]
	if len(cands) == 0 {
		return Val{}, false
	}
	// an address-taken local (or a captured variable) is a cell: its current content wins over any
	// DebugRef'd snapshot registered under the same name
	for k := len(cands) - 1; k >= 0; k-- {
		c := cands[k]
		v, ok := f.vals[c]
		if !ok {
			continue
		}
		if al, isAlloc := c.(*ssa.Alloc); isAlloc {
			if al.Comment != name {
				continue // an object that only got the name through a DebugRef (composite literal, new): not the variable's cell
			}
			pt := al.Type().(*types.Pointer)
			return Val{T: f.ex.loadLV(st, f.ex.lvOf(v)), S: f.ex.reg.SortOf(pt.Elem()), GT: pt.Elem()}, true
		}
		if fv, isFV := c.(*ssa.FreeVar); isFV {
			if pt, ok := fv.Type().(*types.Pointer); ok {
				return Val{T: f.ex.loadLV(st, f.ex.lvOf(v)), S: f.ex.reg.SortOf(pt.Elem()), GT: pt.Elem()}, true
			}
		}
	}
	// prefer the latest candidate whose definition is already computed
	for k := len(cands) - 1; k >= 0; k-- {
		c := cands[k]
		if v, ok := f.vals[c]; ok {
			if al, isAlloc := c.(*ssa.Alloc); isAlloc && al.Comment == name {
				// address-taken local: its current content
				pt := al.Type().(*types.Pointer)
				lv := f.ex.lvOf(v)
				return Val{T: f.ex.loadLV(st, lv), S: f.ex.reg.SortOf(pt.Elem()), GT: pt.Elem()}, true
			}
			if fv, isFV := c.(*ssa.FreeVar); isFV {
				if pt, ok := fv.Type().(*types.Pointer); ok {
					lv := f.ex.lvOf(v)
					return Val{T: f.ex.loadLV(st, lv), S: f.ex.reg.SortOf(pt.Elem()), GT: pt.Elem()}, true
				}
			}
			if v.LV != nil {
				return Val{T: f.plain(v, st), S: SInt, GT: v.GT}, true
			}
			return v, true
		}
	}
	return Val{}, false
}

func (f *Frame) loopHeader(h *ssa.BasicBlock, li *loopInfo, st *PState, edges []inEdge) {
	ex := f.ex
	key := fmt.Sprintf("loop%d", f.loopOrd[h])
	// 1. entry values of the phis
	entryVals := map[ssa.Value]Val{}
	var phis []*ssa.Phi
	for _, in := range h.Instrs {
		phi, ok := in.(*ssa.Phi)
		if !ok {
			break
		}
		phis = append(phis, phi)
		entryVals[phi] = f.phiMerge(phi, edges)
	}
	// 2. invariant holds on entry
	env := f.loopEnv(st, entryVals, h)
	invs := f.usableInvariants(key, env)
	if len(invs) == 0 && f.contract != nil && !f.inlined && ex.safetyTag == "" {
		ex.vc.Note(fmt.Sprintf("%s: %s has no invariant (using true)", f.fn.String(), key))
	}
	for _, inv := range invs {
		tag := inv.Tag
		if tag == "" {
			tag = "inv"
		}
		ex.vc.AddObligation(&Obligation{
			Name: fmt.Sprintf("%s/%s/inv-entry[%s]%s", tag, ex.oblPrefix, key, f.inlineSuffix()),
			Tag:  tag, Kind: "inv-entry", Func: ex.top.String(), Goal: implies(st.reach, env.boolE(inv.Expr)),
			Desc: fmt.Sprintf("loop invariant holds on entry: %s", inv.Src), Pos: f.posOfBlock(h),
		})
	}
	// 3. which heaps does the body modify? (dry run)
	if !li.known {
		f.dryRun(h, li, st)
	}
	// 4. havoc
	before := st.clone()
	if li.modAll || ex.aim != nil {
		if ex.aim != nil {
			ex.curMod = ex.P.aimInfo().modOfBlocks(f.fn, li.body)
		}
		f.havocAll(st)
		ex.curMod = nil
		if ex.aim != nil {
			f.keepUnwrittenCells(before, st, func(b *ssa.BasicBlock) bool { return li.body[b] }, nil)
			ex.keepCapturedCells(before, st)
		}
	} else {
		for _, hn := range sortedKeys(li.mods) {
			hs := ex.hsorts[hn]
			st.heap[hn] = ex.vc.Fresh("lh_"+sanitize(hn), hs)
			ex.assumeFrame(hn, hs, st.heap[hn])
		}
		nb := ex.vc.Fresh("brk", SInt)
		ex.vc.Assume(fmt.Sprintf("(>= %s %s)", nb, st.brk))
		st.brk = nb
	}
	if !li.modAll && ex.aim == nil {
		f.keepUnwrittenCells(before, st, func(b *ssa.BasicBlock) bool { return li.body[b] }, nil)
	} else if ex.aim == nil {
		f.keepUnwrittenCellsX(before, st, func(b *ssa.BasicBlock) bool { return li.body[b] }, nil, true)
	}
	for _, phi := range phis {
		v := ex.havocVal("lp_"+phi.Name(), phi.Type())
		f.vals[phi] = v
		f.assumeAllocated(v.T, phi.Type(), st, 0)
		if phi.Comment != "" {
			f.names[phi.Comment] = append(f.names[phi.Comment], phi)
		}
		if phi.Comment == "rangeindex" {
			ex.vc.Assume(fmt.Sprintf("(>= %s (- 1))", v.T))
		}
	}
	// 5. assume invariant
	cur := map[ssa.Value]Val{}
	for _, phi := range phis {
		cur[phi] = f.vals[phi]
	}
	env2 := f.loopEnv(st, cur, h)
	for _, inv := range invs {
		ex.vc.AssumeIf(st.reach, env2.boolE(inv.Expr))
	}
}

func (f *Frame) posOfBlock(b *ssa.BasicBlock) string {
	for _, in := range b.Instrs {
		if p := f.pos(in); p != "" {
			return p
		}
	}
	return ""
}

func (f *Frame) loopBackEdge(from, h *ssa.BasicBlock, li *loopInfo, st *PState) {
	ex := f.ex
	key := fmt.Sprintf("loop%d", f.loopOrd[h])
	invs := f.invariantsFor(key)
	guard := f.edgeGuard(from, h)
	if len(invs) == 0 {
		if !li.modAll {
			f.frameAt(sortedKeys(li.mods), st, guard, key+"-step")
		}
		return
	}
	idx := -1
	for k, p := range h.Preds {
		if p == from {
			idx = k
		}
	}
	vals := map[ssa.Value]Val{}
	for _, in := range h.Instrs {
		phi, ok := in.(*ssa.Phi)
		if !ok {
			break
		}
		v := f.val(phi.Edges[idx], st)
		vals[phi] = Val{T: f.plain(v, st), S: ex.reg.SortOf(phi.Type()), GT: phi.Type()}
	}
	// names resolved inside the invariant must see the header phis as the *next* iteration's values
	saved := map[ssa.Value]Val{}
	for phi, v := range vals {
		saved[phi] = f.vals[phi]
		f.vals[phi] = v
	}
	env := f.loopEnv(st, vals, h)
	for _, inv := range invs {
		tag := inv.Tag
		if tag == "" {
			tag = "inv"
		}
		ex.vc.AddObligation(&Obligation{
			Name: fmt.Sprintf("%s/%s/inv-step[%s]%s", tag, ex.oblPrefix, key, f.inlineSuffix()),
			Tag:  tag, Kind: "inv-step", Func: ex.top.String(), Goal: implies(guard, env.boolE(inv.Expr)),
			Desc: fmt.Sprintf("loop invariant preserved: %s", inv.Src), Pos: f.posOfBlock(h),
		})
	}
	for phi, v := range saved {
		f.vals[phi] = v
	}
	// the heap reaching the back edge is forgotten at the loop head: check the frame here
	if !li.modAll {
		f.frameAt(sortedKeys(li.mods), st, guard, key+"-step")
	}
}

// dryRun executes the loop body once on a scratch copy to learn which heaps it writes.
func (f *Frame) dryRun(h *ssa.BasicBlock, li *loopInfo, st *PState) {
	ex := f.ex
	li.known = true
	lm, om := ex.vc.mark()
	savedVals := map[ssa.Value]Val{}
	for k, v := range f.vals {
		savedVals[k] = v
	}
	savedExit := map[*ssa.BasicBlock]*PState{}
	for k, v := range f.exit {
		savedExit[k] = v
	}
	savedNames := map[string][]ssa.Value{}
	for k, v := range f.names {
		savedNames[k] = append([]ssa.Value{}, v...)
	}
	savedRets := len(f.returns)
	savedUns := len(ex.vc.unsupported)
	savedN := ex.vc.n
	savedCounts := map[string]int{}
	for k, v := range ex.vc.oblCount {
		savedCounts[k] = v
	}
	savedRepr := map[string]string{}
	for k, v := range ex.reprCache {
		savedRepr[k] = v
	}
	savedEpochN := ex.epochN
	savedIter := f.iterOrd
	var savedOrigins map[int]*epochOrigin
	if ex.origins != nil {
		savedOrigins = copyOrigins(ex.origins)
	}
	ex.dryDepth++

	dst := st.clone()
	base := map[string]string{}
	for k, v := range dst.heap {
		base[k] = v
	}
	baseEpoch := dst.epoch
	for _, in := range h.Instrs {
		phi, ok := in.(*ssa.Phi)
		if !ok {
			break
		}
		f.vals[phi] = ex.havocVal("dry_"+phi.Name(), phi.Type())
		if phi.Comment != "" {
			f.names[phi.Comment] = append(f.names[phi.Comment], phi)
		}
	}
	// run body blocks in rpo order restricted to the loop
	var exits []*PState
	func() {
		defer func() {
			if r := recover(); r != nil {
				if _, ok := r.(*unsupportedErr); ok {
					ex.dryDepth--
					panic(r)
				}
				if _, ok := r.(*specErr); ok {
					ex.dryDepth--
					panic(r)
				}
				panic(r)
			}
		}()
		for _, b := range f.rpo() {
			if !li.body[b] {
				continue
			}
			var bst *PState
			var edges []inEdge
			if b == h {
				bst = dst
				// skip loopHeader handling: phis already set
				for _, in := range b.Instrs {
					if _, ok := in.(*ssa.Phi); ok {
						continue
					}
					f.instr(in, bst)
				}
				f.exit[b] = bst
				continue
			}
			for i, p := range b.Preds {
				if f.isBackEdge(p, b) || f.exit[p] == nil || !li.body[p] {
					continue
				}
				edges = append(edges, inEdge{pred: p, guard: f.edgeGuard(p, b), st: f.exit[p], idx: i})
			}
			if len(edges) == 0 {
				continue
			}
			bst = f.mergeStates(edges)
			if inner := f.loops[b]; inner != nil {
				f.loopHeader(b, inner, bst, edges)
			} else {
				for _, in := range b.Instrs {
					if phi, ok := in.(*ssa.Phi); ok {
						f.vals[phi] = f.phiMerge(phi, edges)
					}
				}
			}
			for _, in := range b.Instrs {
				if _, ok := in.(*ssa.Phi); ok {
					continue
				}
				f.instr(in, bst)
			}
			f.exit[b] = bst
		}
		for _, b := range li.backs {
			if e := f.exit[b]; e != nil {
				exits = append(exits, e)
			}
		}
		// states leaving the loop also matter only for what they modified inside; covered by back edges + exits
		for b := range li.body {
			if e := f.exit[b]; e != nil {
				exits = append(exits, e)
			}
		}
	}()
	for _, e := range exits {
		if e.epoch != baseEpoch {
			li.modAll = true
		}
		for k, v := range e.heap {
			if bv, ok := base[k]; !ok || bv != v {
				if !ok {
					// lazily created during the dry run: unchanged iff it is still the lazy symbol
					if v == fmt.Sprintf("H%d_%s", baseEpoch, sanitize(k)) {
						continue
					}
				}
				li.mods[k] = true
			}
		}
	}
	// restore
	ex.dryDepth--
	ex.vc.rollback(lm, om)
	ex.vc.n = savedN
	ex.vc.oblCount = savedCounts
	ex.vc.unsupported = ex.vc.unsupported[:savedUns]
	ex.reprCache = savedRepr
	ex.epochN = savedEpochN
	if savedOrigins != nil {
		ex.origins = savedOrigins
	}
	f.iterOrd = savedIter
	f.vals = savedVals
	f.exit = savedExit
	f.names = savedNames
	f.returns = f.returns[:savedRets]
	// inner loops must be re-analysed in the real pass (their dry runs saw scratch symbols)
	for b, inner := range f.loops {
		if b != h && li.body[b] {
			inner.known = false
			inner.mods = map[string]bool{}
			inner.modAll = false
		}
	}
}

// ---------------------------------------------------------------- iterator calls (callback = loop body)

type frameSnap struct {
	lm, om   int
	vals     map[ssa.Value]Val
	exit     map[*ssa.BasicBlock]*PState
	names    map[string][]ssa.Value
	rets     int
	uns      int
	n        int
	counts   map[string]int
	repr     map[string]string
	epochN   int
	iterOrd  int
	uc, tr, inl, used map[string]bool
}

func copyBoolMap(m map[string]bool) map[string]bool {
	n := make(map[string]bool, len(m))
	for k, v := range m {
		n[k] = v
	}
	return n
}

func (f *Frame) snapshot() *frameSnap {
	ex := f.ex
	sn := &frameSnap{vals: map[ssa.Value]Val{}, exit: map[*ssa.BasicBlock]*PState{}, names: map[string][]ssa.Value{}, counts: map[string]int{}, repr: map[string]string{}}
	sn.lm, sn.om = ex.vc.mark()
	for k, v := range f.vals {
		sn.vals[k] = v
	}
	for k, v := range f.exit {
		sn.exit[k] = v
	}
	for k, v := range f.names {
		sn.names[k] = append([]ssa.Value{}, v...)
	}
	sn.rets = len(f.returns)
	sn.uns = len(ex.vc.unsupported)
	sn.n = ex.vc.n
	for k, v := range ex.vc.oblCount {
		sn.counts[k] = v
	}
	for k, v := range ex.reprCache {
		sn.repr[k] = v
	}
	sn.epochN = ex.epochN
	sn.iterOrd = f.iterOrd
	sn.uc, sn.tr, sn.inl, sn.used = copyBoolMap(ex.vc.unverifiedCallees), copyBoolMap(ex.vc.trusted), copyBoolMap(ex.vc.inlined), copyBoolMap(ex.vc.usedContracts)
	return sn
}

func (f *Frame) restore(sn *frameSnap) {
	ex := f.ex
	ex.vc.rollback(sn.lm, sn.om)
	ex.vc.n = sn.n
	ex.vc.oblCount = sn.counts
	ex.vc.unsupported = ex.vc.unsupported[:sn.uns]
	ex.reprCache = sn.repr
	ex.epochN = sn.epochN
	f.iterOrd = sn.iterOrd
	f.vals = sn.vals
	f.exit = sn.exit
	f.names = sn.names
	f.returns = f.returns[:sn.rets]
	ex.vc.unverifiedCallees, ex.vc.trusted, ex.vc.inlined, ex.vc.usedContracts = sn.uc, sn.tr, sn.inl, sn.used
}

// runCallback executes the closure once from state st; returns merged post state and result.
func (f *Frame) runCallback(cb *Closure, ys []Val, st *PState) (*PState, Val, bool) {
	ex := f.ex
	fn := cb.Fn.(*ssa.Function)
	if fn.Blocks == nil {
		return nil, Val{}, false
	}
	nf := ex.newFrame(fn)
	nf.inlined = true
	nf.params = ys
	nf.freeVars = cb.Bindings
	ex.depth++
	ex.stack = append(ex.stack, fn)
	rets := nf.run(st.clone())
	ex.stack = ex.stack[:len(ex.stack)-1]
	ex.depth--
	if len(rets) == 0 {
		dead := st.clone()
		dead.reach = "false"
		return dead, Val{T: "false", S: SBool}, true
	}
	var edges []inEdge
	for k := range rets {
		edges = append(edges, inEdge{guard: rets[k].st.reach, st: rets[k].st, idx: k})
	}
	merged := nf.mergeStates(edges)
	res := Val{T: "false", S: SBool}
	ex.lastCbRets = nil
	if fn.Signature.Results().Len() == 1 && ex.reg.SortOf(fn.Signature.Results().At(0).Type()) == SBool {
		for k := range rets {
			ex.lastCbRets = append(ex.lastCbRets, [2]string{rets[k].st.reach, rets[k].results[0].T})
		}
		t := ""
		for k := len(rets) - 1; k >= 0; k-- {
			if t == "" {
				t = rets[k].results[0].T
			} else {
				t = ite(edges[k].guard, rets[k].results[0].T, t)
			}
		}
		res = Val{T: ex.vc.Define("cbret", SBool, t), S: SBool}
	} else if fn.Signature.Results().Len() >= 1 {
		// a callback that does not return a stop flag: whether the iteration stops is unknown
		res = Val{T: ex.vc.Fresh("cbstop", SBool), S: SBool}
	}
	return merged, res, true
}

func (f *Frame) iterateCall(ct *Contract, sig *types.Signature, args []Val, vars map[string]Val, pre *PState, in ssa.Instruction, st *PState, rt types.Type) (Val, bool) {
	ex := f.ex
	var cb *Closure
	var cbSig *types.Signature
	for _, a := range args {
		if a.GT == nil {
			continue
		}
		if s, ok := a.GT.Underlying().(*types.Signature); ok && a.Clos != nil {
			cb, cbSig = a.Clos, s
		}
	}
	if cb == nil {
		return Val{}, false
	}
	f.iterOrd++
	key := fmt.Sprintf("iter%d", f.iterOrd)
	invs := f.invariantsFor(key)
	var pkg *types.Package
	if f.fn.Pkg != nil {
		pkg = f.fn.Pkg.Pkg
	}
	mkInvEnv := func(cur *PState, n, stopped string) *SpecEnv {
		v := map[string]Val{"$n": {T: n, S: SInt}, "$stopped": {T: stopped, S: SBool}}
		for i, p := range f.fn.Params {
			v[p.Name()+"0"] = f.params[i]
		}
		return &SpecEnv{ex: ex, f: f, vars: v, stypes: map[string]*SType{}, cur: cur, old: f.entry, pkg: pkg, expand: ex.expands, what: fmt.Sprintf("invariant %s of %s", key, f.fn.Name())}
	}
	ctPkg := ex.P.typesPkg(ct.Pkg)
	mkYieldEnv := func(cur *PState, n string, ys []Val) *SpecEnv {
		v := map[string]Val{"$n": {T: n, S: SInt}}
		for k, x := range vars {
			v[k] = x
		}
		for k, y := range ys {
			v[fmt.Sprintf("y%d", k)] = y
		}
		return &SpecEnv{ex: ex, vars: v, stypes: map[string]*SType{}, cur: cur, old: pre, pkg: ctPkg, expand: ex.expands, what: "yields of " + ct.Target}
	}
	// 1. invariant on entry
	e0 := mkInvEnv(st, "0", "false")
	invs = f.usableInvariants(key, e0)
	for _, inv := range invs {
		tag := inv.Tag
		if tag == "" {
			tag = "inv"
		}
		ex.vc.AddObligation(&Obligation{Name: fmt.Sprintf("%s/%s/inv-entry[%s]%s", tag, ex.oblPrefix, key, f.inlineSuffix()), Tag: tag, Kind: "inv-entry", Func: ex.top.String(),
			Goal: implies(st.reach, e0.boolE(inv.Expr)), Desc: "iteration invariant holds before the first callback: " + inv.Src, Pos: f.pos(in)})
	}
	// 2. dry run of the callback to find the heaps it writes
	mods := map[string]bool{}
	modAll := false
	func() {
		sn := f.snapshot()
		defer f.restore(sn)
		ex.dryDepth++
		defer func() { ex.dryDepth-- }()
		dst := st.clone()
		base := map[string]string{}
		for k, v := range dst.heap {
			base[k] = v
		}
		var ys []Val
		for k := 0; k < cbSig.Params().Len(); k++ {
			ys = append(ys, ex.havocVal("dry_y", cbSig.Params().At(k).Type()))
		}
		post, _, ok := f.runCallback(cb, ys, dst)
		if !ok {
			modAll = true
			return
		}
		if post.epoch != dst.epoch {
			modAll = true
		}
		for k, v := range post.heap {
			if bv, ok := base[k]; !ok || bv != v {
				if !ok && v == fmt.Sprintf("H%d_%s", dst.epoch, sanitize(k)) {
					continue
				}
				mods[k] = true
			}
		}
	}()
	havoc := func(s *PState) {
		if modAll {
			f.havocAll(s)
			return
		}
		for _, hn := range sortedKeys(mods) {
			s.heap[hn] = ex.vc.Fresh("ih_"+sanitize(hn), ex.hsorts[hn])
			ex.assumeFrame(hn, ex.hsorts[hn], s.heap[hn])
		}
		nb := ex.vc.Fresh("brk", SInt)
		ex.vc.Assume(fmt.Sprintf("(>= %s %s)", nb, s.brk))
		s.brk = nb
	}
	// 3. arbitrary iteration
	body := st.clone()
	havoc(body)
	if !modAll {
		f.keepUnwrittenCells(st, body, nil, cb.Fn.(*ssa.Function))
	}
	n := ex.vc.Fresh("iter_n", SInt)
	ex.vc.Assume(fmt.Sprintf("(>= %s 0)", n))
	eb := mkInvEnv(body, n, "false")
	for _, inv := range invs {
		ex.vc.AssumeIf(body.reach, eb.boolE(inv.Expr))
	}
	var ys []Val
	for k := 0; k < cbSig.Params().Len(); k++ {
		y := ex.havocVal(fmt.Sprintf("y%d", k), cbSig.Params().At(k).Type())
		ys = append(ys, y)
		f.assumeAllocated(y.T, y.GT, body, 0)
	}
	ye := mkYieldEnv(body, n, ys)
	if ct.Count != nil {
		c := ye.Eval(ct.Count)
		ex.vc.AssumeIf(body.reach, fmt.Sprintf("(< %s %s)", n, c.T))
	}
	for _, y := range ct.Yields {
		ex.vc.AssumeIf(body.reach, ye.boolE(y.Expr))
		if y.Trusted {
			ex.vc.trusted[shortPkg(ct.Pkg)+"."+ct.Target+" trustyields "+y.Src] = true
		}
	}
	if ex.iterSelf != nil {
		ex.iterSelf.stops = nil
	}
	post, res, ok := f.runCallback(cb, ys, body)
	if !ok {
		return Val{}, false
	}
	if ex.iterSelf != nil && ex.dryDepth == 0 {
		// the function under verification is an iterator built on this one: its wrapper may stop the inner iteration
		// only when the client's callback asked to stop
		tag := ex.iterSelf.ct.IterTag
		if tag == "" {
			tag = "iter"
		}
		ex.vc.AddObligation(&Obligation{Name: fmt.Sprintf("%s/%s/iter-stop[%s]%s", tag, ex.oblPrefix, key, f.inlineSuffix()), Tag: tag, Kind: "iter-stop", Func: ex.top.String(),
			Goal: implies(post.reach, implies(res.T, or(ex.iterSelf.stops...))), Pos: f.pos(in),
			Desc: "the iteration stops early only when the caller's callback returned true (no element is silently cut off)"})
		// the same, per return site of the wrapper closure: a return site added later is a new obligation name, so it is
		// not masked when the combined obligation above is already refuted by another site (known finding)
		for k, r := range ex.lastCbRets {
			if r[1] == "false" {
				continue
			}
			ex.vc.AddObligation(&Obligation{Name: fmt.Sprintf("%s/%s/iter-stop[%s]@ret%d%s", tag, ex.oblPrefix, key, k+1, f.inlineSuffix()), Tag: tag, Kind: "iter-stop", Func: ex.top.String(),
				Goal: implies(r[0], implies(r[1], or(ex.iterSelf.stops...))), Pos: f.pos(in),
				Desc: fmt.Sprintf("return site %d of the wrapper callback answers 'stop' only when the caller's callback returned true", k+1)})
		}
	}
	ep := mkInvEnv(post, fmt.Sprintf("(+ %s 1)", n), res.T)
	for _, inv := range invs {
		tag := inv.Tag
		if tag == "" {
			tag = "inv"
		}
		ex.vc.AddObligation(&Obligation{Name: fmt.Sprintf("%s/%s/inv-step[%s]%s", tag, ex.oblPrefix, key, f.inlineSuffix()), Tag: tag, Kind: "inv-step", Func: ex.top.String(),
			Goal: implies(post.reach, ep.boolE(inv.Expr)), Desc: "iteration invariant preserved by the callback: " + inv.Src, Pos: f.pos(in)})
	}
	if !modAll {
		f.frameAt(sortedKeys(mods), post, post.reach, key+"-step")
	}
	// 4. after the iteration
	beforeIt := st.clone()
	havoc(st)
	if !modAll {
		f.keepUnwrittenCells(beforeIt, st, nil, cb.Fn.(*ssa.Function))
	}
	nf := ex.vc.Fresh("iter_nf", SInt)
	ex.vc.Assume(fmt.Sprintf("(>= %s 0)", nf))
	stopped := ex.vc.Fresh("iter_stopped", SBool)
	ef := mkInvEnv(st, nf, stopped)
	for _, inv := range invs {
		ex.vc.AssumeIf(st.reach, ef.boolE(inv.Expr))
	}
	if ct.Count != nil {
		yf := mkYieldEnv(st, nf, nil)
		c := yf.Eval(ct.Count)
		ex.vc.AssumeIf(st.reach, or(stopped, eq(nf, c.T)))
		ex.vc.AssumeIf(st.reach, fmt.Sprintf("(<= %s %s)", nf, c.T))
	}
	out := ex.havocVal("iter_res", rt)
	return out, true
}

// keepUnwrittenCells: after a loop/iterator havoc, the cells of this frame's address-taken locals that no
// instruction of the loop body (inBody) or of the callback closure (cb) can write keep their content.
func (f *Frame) keepUnwrittenCells(before, after *PState, inBody func(*ssa.BasicBlock) bool, cb *ssa.Function) {
	f.keepUnwrittenCellsX(before, after, inBody, cb, false)
}

// escAnywhere: the region contains calls that may change anything (no frame); a cell is then only kept when its
// address does not escape anywhere in the function (not just inside the region), so no callee can hold it.
func (f *Frame) keepUnwrittenCellsX(before, after *PState, inBody func(*ssa.BasicBlock) bool, cb *ssa.Function, escAnywhere bool) {
	ex := f.ex
	writes := func(addr ssa.Value, where func(ssa.Instruction) bool) bool {
		// does any instruction selected by `where` store through addr (or an address derived from it), or pass it on?
		var seen = map[ssa.Value]bool{}
		var rec func(v ssa.Value) bool
		rec = func(v ssa.Value) bool {
			if seen[v] || v.Referrers() == nil {
				return false
			}
			seen[v] = true
			for _, r := range *v.Referrers() {
				if _, isMC := r.(*ssa.MakeClosure); !isMC && !where(r) && !escAnywhere {
					continue // closures capturing the cell are inspected wherever they are created
				}
				switch i := r.(type) {
				case *ssa.Store:
					if i.Addr == v {
						if !where(r) {
							continue // a store outside the region (escAnywhere scan): not a write of the region
						}
						return true
					}
					if i.Val == v {
						return true // address escapes into memory
					}
				case *ssa.FieldAddr:
					if rec(i) {
						return true
					}
				case *ssa.IndexAddr:
					if rec(i) {
						return true
					}
				case *ssa.UnOp, *ssa.DebugRef:
				case *ssa.MakeClosure:
					// captured: inspect the closure body
					fn := i.Fn.(*ssa.Function)
					for k, b := range i.Bindings {
						if b == v && k < len(fn.FreeVars) {
							fv := fn.FreeVars[k]
							if cellWrittenIn(fv, fn) {
								return true
							}
						}
					}
				default:
					return true // passed to a call, phi, etc.
				}
			}
			return false
		}
		return rec(addr)
	}
	for _, al := range sortedAllocs(f.vals) {
		v := f.vals[al]
		if v.LV != nil || v.T == "" {
			continue
		}
		hn, hs := ex.heapOfType(al.Type().(*types.Pointer).Elem())
		bt, ok1 := before.heap[hn]
		at, ok2 := after.heap[hn]
		if (ex.aim != nil || escAnywhere) && ok1 && !ok2 {
			at, ok2 = ex.H(after, hn, hs), true
		}
		if !ok1 || !ok2 || bt == at {
			continue
		}
		where := func(in ssa.Instruction) bool { return in.Block() != nil && inBody != nil && inBody(in.Block()) }
		if cb != nil {
			// iterator call: the body is the callback; the caller's own instructions do not run during the iteration,
			// only closures capturing the cell matter (MakeClosure referrers are always inspected)
			where = func(in ssa.Instruction) bool { return false }
		}
		if writes(al, where) {
			continue
		}
		ex.vc.Assume(eq(sel(at, v.T), sel(bt, v.T)))
		_ = hs
	}
}

// cellWrittenIn: does fn (or a closure nested in it) write the captured cell fv?
func cellWrittenIn(fv *ssa.FreeVar, fn *ssa.Function) bool {
	if fv.Referrers() == nil {
		return false
	}
	var seen = map[ssa.Value]bool{}
	var rec func(v ssa.Value) bool
	rec = func(v ssa.Value) bool {
		if seen[v] || v.Referrers() == nil {
			return false
		}
		seen[v] = true
		for _, r := range *v.Referrers() {
			switch i := r.(type) {
			case *ssa.Store:
				if i.Addr == v || i.Val == v {
					return true
				}
			case *ssa.FieldAddr:
				if rec(i) {
					return true
				}
			case *ssa.IndexAddr:
				if rec(i) {
					return true
				}
			case *ssa.UnOp, *ssa.DebugRef:
			case *ssa.MakeClosure:
				inner := i.Fn.(*ssa.Function)
				for k, b := range i.Bindings {
					if b == v && k < len(inner.FreeVars) && cellWrittenIn(inner.FreeVars[k], inner) {
						return true
					}
				}
			default:
				return true
			}
		}
		return false
	}
	return rec(fv)
}

// aimObligation (C07): a method of a re-aimable store is called: its state pointer must be the deliver state.
func (f *Frame) aimObligation(callee *ssa.Function, args []Val, in ssa.Instruction, st *PState) {
	ex := f.ex
	sig := callee.Signature
	if sig.Recv() == nil || len(args) == 0 {
		return
	}
	name := callee.Name()
	if name == "WithState" || name == "WithPrefix" || name == "WithPrefixType" || name == "WithHeight" {
		return
	}
	pt, ok := sig.Recv().Type().Underlying().(*types.Pointer)
	if !ok {
		return
	}
	nt, ok := types.Unalias(pt.Elem()).(*types.Named)
	if !ok || nt.Obj().Pkg() == nil || !strings.HasPrefix(nt.Obj().Pkg().Path(), modPath) {
		return
	}
	// re-aimable: has a WithState method
	ms := ex.P.prog.MethodSets.MethodSet(sig.Recv().Type())
	has := false
	for i := 0; i < ms.Len(); i++ {
		if ms.At(i).Obj().Name() == "WithState" {
			has = true
		}
	}
	if !has {
		return
	}
	stt, ok := nt.Underlying().(*types.Struct)
	if !ok {
		return
	}
	fieldIdx := -1
	for i := 0; i < stt.NumFields(); i++ {
		if p2, ok := stt.Field(i).Type().Underlying().(*types.Pointer); ok {
			if isNamedIn(p2.Elem(), "/storage", "State") {
				fieldIdx = i
				break
			}
		}
	}
	if fieldIdx < 0 {
		return
	}
	recv := args[0]
	var cur string
	if recv.LV != nil {
		cur = ex.loadLV(st, recv.LV)
	} else {
		hn, hs := ex.heapOfType(pt.Elem())
		cur = sel(ex.H(st, hn, hs), recv.T)
	}
	si := ex.reg.StructInfoOf(pt.Elem())
	aimed := app(si.Fields[fieldIdx].Acc, cur)
	var pkg *types.Package
	if ex.top.Pkg != nil {
		pkg = ex.top.Pkg.Pkg
	}
	env := &SpecEnv{ex: ex, f: ex.topFrame, vars: map[string]Val{}, stypes: map[string]*SType{}, cur: st, old: ex.entry, pkg: pkg, expand: ex.expands, what: "aimcheck of " + ex.top.Name()}
	for i, p := range ex.top.Params {
		if i < len(ex.topFrame.params) {
			env.vars[p.Name()+"0"] = ex.topFrame.params[i]
		}
	}
	want := env.Eval(ex.aim.Expr)
	tag := ex.aim.Tag
	if tag == "" {
		tag = "C07.aim"
	}
	ex.vc.AddObligation(&Obligation{
		Name: fmt.Sprintf("%s/%s/aim[%s.%s]%s", tag, ex.oblPrefix, nt.Obj().Name(), name, f.inlineSuffix()), Tag: tag, Kind: "aim", Func: ex.top.String(),
		Goal: implies(st.reach, eq(aimed, want.T)), Pos: f.pos(in),
		Desc: fmt.Sprintf("store %s is aimed at the deliver state when %s is called (it may have been re-aimed at the check state by any earlier CheckTx)", nt.Obj().Name(), name),
	})
}

// copyOut writes the copy made for an interior-pointer argument back into its place and states the
// resulting equality (a consequence of the store) so that E-matching sees the two views as one object.
func (ex *Exec) copyOut(st *PState, lv *LValue, ref string, t types.Type) {
	hn, hs := ex.heapOfType(t)
	v := sel(ex.H(st, hn, hs), ref)
	ex.storeLV(st, lv, v)
	if st.reach != "false" {
		ex.vc.AssumeIf(st.reach, eq(ex.loadLV(st, lv), v))
	}
}

// ---------------------------------------------------------------- an iterator whose own body is verified

type iterSelf struct {
	param *ssa.Parameter
	ct    *Contract
	vars  map[string]Val
	stops []string
	n     int
}

// tracesToParam: v is the callback parameter p itself, or a load from a cell (local variable or captured variable)
// that only ever holds p.
func tracesToParam(v ssa.Value, p *ssa.Parameter, depth int) bool {
	if depth > 5 {
		return false
	}
	switch x := v.(type) {
	case *ssa.Parameter:
		return x == p
	case *ssa.UnOp:
		if x.Op != token.MUL {
			return false
		}
		return cellHoldsParam(x.X, p, depth+1)
	}
	return false
}

func cellHoldsParam(cell ssa.Value, p *ssa.Parameter, depth int) bool {
	if depth > 5 {
		return false
	}
	switch c := cell.(type) {
	case *ssa.Alloc:
		if c.Referrers() == nil {
			return false
		}
		n := 0
		for _, r := range *c.Referrers() {
			if st, ok := r.(*ssa.Store); ok && st.Addr == c {
				if !tracesToParam(st.Val, p, depth+1) {
					return false
				}
				n++
			}
		}
		return n > 0
	case *ssa.FreeVar:
		fn := c.Parent()
		par := fn.Parent()
		if par == nil {
			return false
		}
		idx := -1
		for k, fv := range fn.FreeVars {
			if fv == c {
				idx = k
			}
		}
		for _, b := range par.Blocks {
			for _, in := range b.Instrs {
				if mc, ok := in.(*ssa.MakeClosure); ok && mc.Fn == fn && idx >= 0 && idx < len(mc.Bindings) {
					return cellHoldsParam(mc.Bindings[idx], p, depth+1)
				}
			}
		}
	}
	return false
}

// selfYield: the body of the iterator under verification hands an element to the caller's callback. Each `yields`
// clause is an obligation here; the callback itself is the caller's business (modelled at the caller's call site as
// the loop body), here it only returns an arbitrary stop flag.
func (f *Frame) selfYield(args []Val, in ssa.Instruction, st *PState, rt types.Type) Val {
	ex := f.ex
	is := ex.iterSelf
	vars := map[string]Val{}
	for k, v := range is.vars {
		vars[k] = v
	}
	for k, a := range f.plainArgs(args, st) {
		vars[fmt.Sprintf("y%d", k)] = a
	}
	env := &SpecEnv{ex: ex, vars: vars, stypes: map[string]*SType{}, cur: st, old: ex.entry, pkg: ex.P.typesPkg(is.ct.Pkg), expand: ex.expands, what: "yields of " + is.ct.Target}
	if ex.dryDepth == 0 {
		for _, y := range is.ct.Yields {
			if y.Trusted {
				continue
			}
			tag := y.Tag
			if tag == "" {
				tag = "yield"
			}
			ex.vc.AddObligation(&Obligation{Name: fmt.Sprintf("%s/%s/yield%s", tag, ex.oblPrefix, f.inlineSuffix()), Tag: tag, Kind: "yield", Func: ex.top.String(),
				Goal: implies(st.reach, env.boolE(y.Expr)), Pos: f.pos(in), Desc: "every element handed to the callback satisfies: " + y.Src})
		}
	}
	res := ex.havocVal("cbres", rt)
	if res.S == SBool {
		is.stops = append(is.stops, and(st.reach, res.T))
	}
	return res
}

// sortedAllocs: the Alloc instructions among the keys of a frame's value map, in a fixed order (the VC text must not
// depend on Go's map iteration order: the solvers' behaviour on the same obligation would differ from run to run).
func sortedAllocs(vals map[ssa.Value]Val) []*ssa.Alloc {
	var out []*ssa.Alloc
	for val := range vals {
		if al, ok := val.(*ssa.Alloc); ok {
			out = append(out, al)
		}
	}
	sort.Slice(out, func(i, j int) bool {
		if out[i].Pos() != out[j].Pos() {
			return out[i].Pos() < out[j].Pos()
		}
		if len(out[i].Name()) != len(out[j].Name()) {
			return len(out[i].Name()) < len(out[j].Name())
		}
		return out[i].Name() < out[j].Name()
	})
	return out
}
