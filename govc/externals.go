package main

// Assumed contracts on dependencies (DESIGN.md 3.5): math/big, errors, fmt,
// logging, encoding/json, serialize.Serializer, bytes, strings, time, sort.
// Every model used in a run is recorded in the evidence (trusted_base).

import (
	"fmt"
	"go/types"
	"strings"

	"golang.org/x/tools/go/ssa"
)

func (f *Frame) bigRead(v Val, st *PState) string {
	ex := f.ex
	if v.LV != nil {
		return ex.loadLV(st, v.LV)
	}
	return sel(ex.H(st, "H:Int", ArrS(SInt, SInt)), v.T)
}

func (f *Frame) bigWrite(v Val, term string, st *PState) {
	ex := f.ex
	if v.LV != nil {
		ex.storeLV(st, v.LV, term)
		return
	}
	ex.setH(st, "H:Int", ArrS(SInt, SInt), sto(ex.H(st, "H:Int", ArrS(SInt, SInt)), v.T, term))
}

func (f *Frame) nonNil(v Val, in ssa.Instruction, st *PState, what string) {
	if v.LV != nil {
		return
	}
	f.safety(st, "nil-deref", in, not(eq(v.T, "0")), what)
}

// strInv states the Go-level range of a string's length for a term produced by an external model.
func (ex *Exec) strInv(term string) string {
	ex.vc.Assume(fmt.Sprintf("(and (>= (str_len %s) 0) (<= (str_len %s) 9223372036854775807))", term, term))
	return term
}

func (f *Frame) newErr(st *PState, hint string) Val {
	ex := f.ex
	v := ex.havocVal(hint, types.Universe.Lookup("error").Type())
	ex.vc.Assume(not(eq(app("itag", v.T), "0")))
	return v
}

var pureExternalPrefixes = []string{
	"fmt.", "strings.", "strconv.", "encoding/hex.", "unicode", "math.", "errors.", "github.com/pkg/errors.",
	"runtime/debug.", "runtime.", "(*strings.", "(strings.", "encoding/base64.", "(*encoding/base64.", "path.", "path/filepath.",
	"(*github.com/Oneledger/protocol/log.Logger).", "(github.com/Oneledger/protocol/log.Logger).", "github.com/Oneledger/protocol/log.",
	"(*sync.", "sync.", "sync/atomic.", "(time.", "time.", "(*time.", "bytes.", "(*bytes.", "crypto/", "hash/", "golang.org/x/crypto",
	"(reflect.", "reflect.", "(*github.com/google/uuid", "github.com/google/uuid", "(github.com/google/uuid",
	"github.com/tendermint/tendermint/libs/kv.", "github.com/tendermint/tendermint/crypto", "(github.com/tendermint/tendermint/crypto",
	"github.com/ethereum/go-ethereum/common.", "(github.com/ethereum/go-ethereum/common.", "github.com/ethereum/go-ethereum/crypto.",
	"github.com/ethereum/go-ethereum/common/hexutil.", "(*github.com/ethereum/go-ethereum/common.", "math/rand.", "os.Getenv", "sort.Search",
	"(*github.com/tendermint/tendermint/abci/types.", "(github.com/tendermint/tendermint/abci/types.", "(*math/big.Float).", "math/big.NewFloat",
	"github.com/ethereum/go-ethereum/rlp.", "unicode/utf8.", "regexp.", "(*regexp.", "github.com/tendermint/tendermint/rpc/core.", "(*github.com/ethereum/go-ethereum/core/types.", "(github.com/ethereum/go-ethereum/core/types.",
}

func isPureExternal(name string) bool {
	for _, p := range pureExternalPrefixes {
		if strings.HasPrefix(name, p) {
			return true
		}
	}
	return false
}

// externalModel returns (value, true) if callee is modelled here.
func (f *Frame) externalModel(fn *ssa.Function, args []Val, in ssa.Instruction, st *PState, rt types.Type) (Val, bool) {
	ex := f.ex
	name := fn.String()
	unit := Val{T: "0", S: SInt}
	use := func(group string) { ex.vc.trusted[group] = true }

	// ---- math/big.Int
	if strings.HasPrefix(name, "(*math/big.Int).") {
		use("T-BIG math/big.Int methods (mathematical integers)")
		m := strings.TrimPrefix(name, "(*math/big.Int).")
		z := args[0]
		rd := func(k int) string {
			f.nonNil(args[k], in, st, "nil *big.Int argument of "+m)
			return f.bigRead(args[k], st)
		}
		ret := func() Val { return Val{T: f.plain(z, st), S: SInt, GT: rt, LV: z.LV} }
		bin := func(op string) (Val, bool) {
			a, b := rd(1), rd(2)
			f.nonNil(z, in, st, "nil *big.Int receiver of "+m)
			f.bigWrite(z, app(op, a, b), st)
			return ret(), true
		}
		switch m {
		case "Add":
			return bin("+")
		case "Sub":
			return bin("-")
		case "Mul":
			return bin("*")
		case "Div", "Mod", "Quo", "Rem":
			a, b := rd(1), rd(2)
			f.nonNil(z, in, st, "nil receiver")
			f.safety(st, "div-zero", in, not(eq(b, "0")), "big.Int division by zero")
			op := map[string]string{"Div": "div", "Mod": "mod", "Quo": "go_div", "Rem": "go_rem"}[m]
			f.bigWrite(z, app(op, a, b), st)
			return ret(), true
		case "Neg":
			a := rd(1)
			f.nonNil(z, in, st, "nil receiver")
			f.bigWrite(z, "(- "+a+")", st)
			return ret(), true
		case "Abs":
			a := rd(1)
			f.nonNil(z, in, st, "nil receiver")
			f.bigWrite(z, ite("(< "+a+" 0)", "(- "+a+")", a), st)
			return ret(), true
		case "Set":
			a := rd(1)
			f.nonNil(z, in, st, "nil receiver")
			f.bigWrite(z, a, st)
			return ret(), true
		case "SetInt64", "SetUint64":
			f.nonNil(z, in, st, "nil receiver")
			f.bigWrite(z, args[1].T, st)
			return ret(), true
		case "Cmp":
			a, b := rd(0), rd(1)
			return Val{T: ex.vc.Define("cmp", SInt, app("big_cmp", a, b)), S: SInt, GT: rt}, true
		case "CmpAbs":
			rd(0)
			rd(1)
			v := ex.havocVal("cmpabs", rt)
			ex.vc.Assume(fmt.Sprintf("(and (<= (- 1) %s) (<= %s 1))", v.T, v.T))
			return v, true
		case "Sign":
			a := rd(0)
			return Val{T: app("big_sign", a), S: SInt, GT: rt}, true
		case "Int64":
			a := rd(0)
			return Val{T: ex.vc.Define("i64", SInt, app("wrap_s64", a)), S: SInt, GT: rt}, true
		case "Uint64":
			a := rd(0)
			// low 64 bits of |x|
			return Val{T: ex.vc.Define("u64", SInt, app("wrap_u64", ite("(< "+a+" 0)", "(- "+a+")", a))), S: SInt, GT: rt}, true
		case "IsInt64":
			a := rd(0)
			return Val{T: fmt.Sprintf("(and (<= (- 9223372036854775808) %s) (<= %s 9223372036854775807))", a, a), S: SBool, GT: rt}, true
		case "IsUint64":
			a := rd(0)
			return Val{T: fmt.Sprintf("(and (<= 0 %s) (<= %s 18446744073709551615))", a, a), S: SBool, GT: rt}, true
		case "String":
			// nil receiver prints "<nil>"
			if z.LV == nil {
				a := f.bigRead(z, st)
				return Val{T: ex.strInv(ex.vc.Define("bstr", SStr, ite(eq(z.T, "0"), ex.reg.StrLit("<nil>"), app("big_str", a)))), S: SStr, GT: rt}, true
			}
			return Val{T: ex.strInv(ex.vc.Define("bstr", SStr, app("big_str", f.bigRead(z, st)))), S: SStr, GT: rt}, true
		case "Text", "Bytes", "BitLen", "Bit", "TrailingZeroBits", "ProbablyPrime", "Append", "Format", "MarshalJSON", "MarshalText", "FillBytes", "Float64":
			rd(0)
			return ex.havocVal("big_"+m, rt), true
		case "SetString":
			f.nonNil(z, in, st, "nil receiver")
			ok := ex.vc.Fresh("setstr_ok", SBool)
			nv := ex.vc.Fresh("setstr_v", SInt)
			f.bigWrite(z, nv, st)
			res := ex.vc.Define("setstr_r", SInt, ite(ok, f.plain(z, st), "0"))
			return Val{S: "Tuple", GT: rt, Tuple: []Val{{T: res, S: SInt, GT: fn.Signature.Results().At(0).Type()}, {T: ok, S: SBool, GT: types.Typ[types.Bool]}}}, true
		case "SetBytes":
			f.nonNil(z, in, st, "nil receiver")
			nv := ex.vc.Fresh("setbytes_v", SInt)
			ex.vc.Assume("(>= " + nv + " 0)")
			f.bigWrite(z, nv, st)
			return ret(), true
		case "UnmarshalText", "UnmarshalJSON", "GobDecode", "Scan":
			f.nonNil(z, in, st, "nil receiver")
			nv := ex.vc.Fresh("unm_v", SInt)
			f.bigWrite(z, nv, st)
			return ex.havocVal("big_err", rt), true
		case "Exp":
			f.nonNil(z, in, st, "nil receiver")
			xv, yv := rd(1), rd(2)
			nv := ex.vc.Fresh("big_Exp", SInt)
			if len(args) > 3 && args[3].T == "0" {
				// no modulus: an uninterpreted power function, positive for a positive base
				fn := ex.reg.UFun("big_exp", []Sort{SInt, SInt}, SInt)
				ex.vc.Assume(eq(nv, app(fn, xv, yv)))
				ex.vc.Assume(implies("(> "+xv+" 0)", "(> "+nv+" 0)"))
			}
			f.bigWrite(z, nv, st)
			return ret(), true
		case "Sqrt", "Lsh", "Rsh", "And", "Or", "Xor", "Not", "GCD", "ModInverse", "SetBit", "Rand", "DivMod", "QuoRem", "MulRange", "Binomial", "ModSqrt", "AndNot":
			f.nonNil(z, in, st, "nil receiver")
			for k := 1; k < len(args); k++ {
				if args[k].GT != nil {
					if _, ok := args[k].GT.Underlying().(*types.Pointer); ok {
						f.nonNilIfNotOptional(args[k], in, st, m, k)
					}
				}
			}
			nv := ex.vc.Fresh("big_"+m, SInt)
			if m == "Exp" || m == "Sqrt" || m == "GCD" {
				// non-negative for non-negative inputs is not assumed; value arbitrary
			}
			f.bigWrite(z, nv, st)
			return ret(), true
		}
		return Val{}, false
	}
	switch name {
	case "math.Ceil", "math.Floor", "math.Round", "math.Trunc":
		use("T-FLOAT float64 arithmetic is uninterpreted (f64_* functions of their arguments)")
		fn := ex.reg.UFun("f64_"+strings.ToLower(name[5:]), []Sort{SF64}, SF64)
		return Val{T: app(fn, args[0].T), S: SF64, GT: rt}, true
	case "(*math/big.Float).Int":
		// Int(z) returns z (a fresh non-nil *big.Int when z is nil) holding the truncated value (floats uninterpreted: arbitrary)
		use("T-FLOAT big.Float is uninterpreted; (*big.Float).Int returns a non-nil integer with an arbitrary value")
		r := ex.alloc(st, "floatint")
		nv := ex.vc.Fresh("floatint_v", SInt)
		res := r
		if len(args) > 1 && args[1].T != "0" && args[1].LV == nil {
			res = ex.vc.Define("fint", SInt, ite(eq(args[1].T, "0"), r, args[1].T))
		}
		ex.setH(st, "H:Int", ArrS(SInt, SInt), sto(ex.H(st, "H:Int", ArrS(SInt, SInt)), res, nv))
		tup := rt.(*types.Tuple)
		return Val{S: "Tuple", GT: rt, Tuple: []Val{{T: res, S: SInt, GT: tup.At(0).Type()}, ex.havocVal("acc", tup.At(1).Type())}}, true
	case "math/big.NewInt":
		use("T-BIG math/big.Int methods (mathematical integers)")
		r := ex.alloc(st, "bigint")
		ex.setH(st, "H:Int", ArrS(SInt, SInt), sto(ex.H(st, "H:Int", ArrS(SInt, SInt)), r, args[0].T))
		return Val{T: r, S: SInt, GT: rt}, true
	case "errors.New", "fmt.Errorf", "github.com/pkg/errors.New", "github.com/pkg/errors.Errorf":
		use("T-LOG errors/fmt constructors return non-nil errors and do not panic")
		return f.newErr(st, "err"), true
	case "github.com/pkg/errors.Wrap", "github.com/pkg/errors.Wrapf", "github.com/pkg/errors.WithMessage", "github.com/pkg/errors.WithStack", "github.com/pkg/errors.WithMessagef":
		use("T-LOG errors/fmt constructors return non-nil errors and do not panic")
		v := ex.havocVal("werr", rt)
		ex.vc.Assume(eq(eq(app("itag", v.T), "0"), eq(app("itag", args[0].T), "0")))
		return v, true
	case "(*github.com/Oneledger/protocol/log.Logger).Fatal", "(*github.com/Oneledger/protocol/log.Logger).Fatalf", "os.Exit", "log.Fatal", "log.Fatalf", "log.Panic", "log.Panicf":
		use("T-LOG logger.Fatal/os.Exit terminate the process")
		f.safety(st, "fatal", in, "false", "process exit ("+name[strings.LastIndex(name, ".")+1:]+") reachable")
		st.reach = "false"
		return unit, true
	case "bytes.Equal":
		use("T-BYTES bytes.Equal/Compare are content comparison")
		return Val{T: eq(app("b_str", args[0].T), app("b_str", args[1].T)), S: SBool, GT: rt}, true
	case "bytes.Compare":
		use("T-BYTES bytes.Equal/Compare are content comparison")
		v := ex.havocVal("bcmp", rt)
		a, b := app("b_str", args[0].T), app("b_str", args[1].T)
		ex.vc.Assume(fmt.Sprintf("(and (<= (- 1) %s) (<= %s 1) (= (= %s 0) (= %s %s)) (= (< %s 0) (str_lt %s %s)))", v.T, v.T, v.T, a, b, v.T, a, b))
		return v, true
	case "strings.Compare":
		v := ex.havocVal("scmp", rt)
		ex.vc.Assume(fmt.Sprintf("(and (<= (- 1) %s) (<= %s 1) (= (= %s 0) (= %s %s)) (= (< %s 0) (str_lt %s %s)))", v.T, v.T, v.T, args[0].T, args[1].T, v.T, args[0].T, args[1].T))
		return v, true
	case "(*regexp.Regexp).Match", "(*regexp.Regexp).MatchString":
		// whether a text matches a compiled pattern is a function of the pattern object and the text (the pattern language
		// itself is not modelled): specs can name it as @re_match_bool(<regexp variable>, <text>)
		use("T-REGEXP (*regexp.Regexp).Match/MatchString is an uninterpreted function re_match_bool(pattern object, text); no panic")
		f.nonNil(args[0], in, st, "nil *regexp.Regexp")
		fn := ex.reg.UFun("re_match_bool", []Sort{SInt, SStr}, SBool)
		txt := args[1].T
		if args[1].S == SBytes {
			txt = app("b_str", args[1].T)
		}
		return Val{T: app(fn, args[0].T, txt), S: SBool, GT: rt}, true
	case "strconv.Itoa":
		return Val{T: ex.strInv(ex.vc.Define("itoa", SStr, app("int_str", args[0].T))), S: SStr, GT: rt}, true
	case "strconv.FormatInt":
		if args[1].T == "10" {
			return Val{T: ex.strInv(ex.vc.Define("itoa", SStr, app("int_str", args[0].T))), S: SStr, GT: rt}, true
		}
	case "sort.Strings", "sort.Ints", "sort.Slice", "sort.SliceStable", "sort.Sort", "sort.Stable":
		use("T-SORT sort.* permutes the elements of the slice in place (the result is a permutation of the old contents; the order itself is not modelled)")
		a := args[0]
		if !isSliceSort(a.S) && a.S == SIface {
			// sort.Slice(x interface{}, less): find the slice behind the interface
			if payload, ok := staticIfacePayload(in.(ssa.CallInstruction).Common().Args[0]); ok {
				a = f.val(payload, st)
			}
		}
		if isSliceSort(a.S) && a.GT != nil {
			sl := a.GT.Underlying().(*types.Slice)
			es := ex.reg.SortOf(sl.Elem())
			hn, hs := ex.sliceHeap(es)
			h := ex.H(st, hn, hs)
			arr := app("arr_"+string(a.S), a.T)
			off := app("off_"+string(a.S), a.T)
			ln := app("len_"+string(a.S), a.T)
			oldc := ex.vc.Define("sort_old", ArrS(SInt, es), sel(h, arr))
			newc := ex.vc.Fresh("sort_new", ArrS(SInt, es))
			ex.vc.n++
			pf := ex.reg.UFun(fmt.Sprintf("sort_p_%d_%s", ex.vc.n, sanitize(shortFn(ex.top))), []Sort{SInt}, SInt)
			pi := ex.reg.UFun(fmt.Sprintf("sort_pinv_%d_%s", ex.vc.n, sanitize(shortFn(ex.top))), []Sort{SInt}, SInt)
			// new[off+i] == old[off+p(i)], p a bijection on [0,len); cells outside [off,off+len) unchanged
			ex.vc.Assume(fmt.Sprintf("(forall ((qi Int)) (! (=> (and (<= 0 qi) (< qi %s)) (and (<= 0 (%s qi)) (< (%s qi) %s) (= (%s (%s qi)) qi) (= (select %s (+ %s qi)) (select %s (+ %s (%s qi)))))) :pattern ((select %s (+ %s qi))) :pattern ((%s qi))))", ln, pf, pf, ln, pi, pf, newc, off, oldc, off, pf, newc, off, pf))
			ex.vc.Assume(fmt.Sprintf("(forall ((qj Int)) (! (=> (and (<= 0 qj) (< qj %s)) (and (<= 0 (%s qj)) (< (%s qj) %s) (= (%s (%s qj)) qj) (= (select %s (+ %s (%s qj))) (select %s (+ %s qj))))) :pattern ((%s qj)) :pattern ((select %s (+ %s qj)))))", ln, pi, pi, ln, pf, pi, newc, off, pi, oldc, off, pi, oldc, off))
			ex.vc.Assume(fmt.Sprintf("(forall ((qk Int)) (! (=> (or (< qk %s) (>= qk (+ %s %s))) (= (select %s qk) (select %s qk))) :pattern ((select %s qk))))", off, off, ln, newc, oldc, newc))
			ex.setH(st, hn, hs, sto(h, arr, newc))
		} else {
			f.havocAll(st)
		}
		return unit, true
	case "encoding/json.Unmarshal":
		use("T-JSON encoding/json.Unmarshal: no panic; decoded value is an arbitrary value of the target type, a function of the input bytes")
		return f.decodeInto("unm", args[0], fn, in, st, rt, 1), true
	case "encoding/json.Marshal", "encoding/json.MarshalIndent":
		use("T-JSON encoding/json.Marshal: arbitrary bytes")
		return ex.havocVal("json", rt), true
	case "time.Now":
		use("T-TIME time.Time is an integer instant")
		return ex.havocVal("now", rt), true
	case "(time.Time).After":
		return Val{T: "(> " + args[0].T + " " + args[1].T + ")", S: SBool, GT: rt}, true
	case "(time.Time).Before":
		return Val{T: "(< " + args[0].T + " " + args[1].T + ")", S: SBool, GT: rt}, true
	case "(time.Time).Equal":
		return Val{T: eq(args[0].T, args[1].T), S: SBool, GT: rt}, true
	case "(time.Time).AddDate":
		use("T-TIME time.Time is an integer instant; AddDate/Add/Sub/Unix are uninterpreted functions of their arguments (AddDate: identity for 0,0,0 and not earlier for non-negative arguments)")
		fn := ex.reg.UFun("time_adddate", []Sort{SInt, SInt, SInt, SInt}, SInt)
		t := ex.vc.Define("adddate", SInt, app(fn, args[0].T, args[1].T, args[2].T, args[3].T))
		ex.vc.Assume(implies(and(eq(args[1].T, "0"), eq(args[2].T, "0"), eq(args[3].T, "0")), eq(t, args[0].T)))
		ex.vc.Assume(implies(and("(>= "+args[1].T+" 0)", "(>= "+args[2].T+" 0)", "(>= "+args[3].T+" 0)"), "(>= "+t+" "+args[0].T+")"))
		return Val{T: t, S: SInt, GT: rt}, true
	case "(time.Time).Add":
		use("T-TIME time.Time is an integer instant; AddDate/Add/Sub/Unix are uninterpreted functions of their arguments (AddDate: identity for 0,0,0 and not earlier for non-negative arguments)")
		fn := ex.reg.UFun("time_add", []Sort{SInt, SInt}, SInt)
		return Val{T: app(fn, args[0].T, args[1].T), S: SInt, GT: rt}, true
	case "(time.Time).Sub":
		fn := ex.reg.UFun("time_sub", []Sort{SInt, SInt}, SInt)
		v := ex.havocVal("tsub", rt)
		ex.vc.Assume(eq(v.T, app("wrap_s64", app(fn, args[0].T, args[1].T))))
		return v, true
	case "(time.Time).Unix", "(time.Time).UnixNano":
		fn := ex.reg.UFun("time_"+strings.ToLower(name[strings.LastIndex(name, ".")+1:]), []Sort{SInt}, SInt)
		v := ex.havocVal("tunix", rt)
		ex.vc.Assume(eq(v.T, app("wrap_s64", app(fn, args[0].T))))
		return v, true
	case "(time.Time).UTC", "(time.Time).Local", "(time.Time).Round":
		return Val{T: args[0].T, S: SInt, GT: rt}, true
	}
	// nil-safe protobuf getters of tendermint's abci types: Get<Field>() is a field read
	if strings.HasPrefix(name, "(*github.com/tendermint/tendermint/abci/types.") && strings.Contains(name, ").Get") && len(args) == 1 {
		m := name[strings.Index(name, ").Get")+5:]
		if pt, ok := args[0].GT.Underlying().(*types.Pointer); ok {
			if si := ex.reg.StructInfoOf(pt.Elem()); si != nil {
				for _, fl := range si.Fields {
					if fl.Name == m && ex.reg.SortOf(rt) == fl.Sort {
						use("T-TM tendermint abci/types getters return their fields (zero value for a nil receiver)")
						var cur string
						if args[0].LV != nil {
							cur = app(fl.Acc, ex.loadLV(st, args[0].LV))
						} else {
							hn, hs := ex.heapOfType(pt.Elem())
							cur = ite(eq(args[0].T, "0"), ex.reg.ZeroValue(fl.T), app(fl.Acc, sel(ex.H(st, hn, hs), args[0].T)))
						}
						return Val{T: ex.vc.Define("get"+m, fl.Sort, cur), S: fl.Sort, GT: rt}, true
					}
				}
			}
		}
	}
	if isPureExternal(name) {
		if ex.P.ContractFor(fn) != nil {
			return Val{}, false // an explicit (assumed) contract wins over the generic T-PURE havoc
		}
		use("T-PURE standard-library / logging helpers neither panic nor touch verified state (" + pkgOfName(name) + ")")
		v := ex.havocVal("ext", rt)
		return v, true
	}
	return Val{}, false
}

func pkgOfName(name string) string {
	name = strings.TrimLeft(name, "(*")
	if i := strings.LastIndex(name, "."); i > 0 {
		name = name[:i]
	}
	if i := strings.Index(name, ")"); i > 0 {
		name = name[:i]
	}
	if i := strings.LastIndex(name, "."); i > 0 && strings.Contains(name[i:], ".") {
		return name[:i]
	}
	return name
}

func (f *Frame) nonNilIfNotOptional(v Val, in ssa.Instruction, st *PState, m string, k int) {
	// Exp's modulus may be nil
	if m == "Exp" && k == 3 {
		return
	}
	f.nonNil(v, in, st, "nil *big.Int argument of "+m)
}

// staticIfacePayload finds the static type wrapped by a MakeInterface feeding v.
func staticIfacePayload(v ssa.Value) (ssa.Value, bool) {
	switch x := v.(type) {
	case *ssa.MakeInterface:
		return x.X, true
	case *ssa.ChangeInterface:
		return staticIfacePayload(x.X)
	}
	return nil, false
}

// decodeInto models json.Unmarshal / Serializer.Deserialize: data at args[0] (or given), target interface at index ti.
func (f *Frame) decodeInto(kind string, data Val, fn *ssa.Function, in ssa.Instruction, st *PState, rt types.Type, ti int) Val {
	ex := f.ex
	call := in.(ssa.CallInstruction).Common()
	errV := ex.havocVal(kind+"_err", types.Universe.Lookup("error").Type())
	var targetArg ssa.Value
	if call.IsInvoke() {
		targetArg = call.Args[ti]
	} else {
		targetArg = call.Args[ti]
	}
	payload, ok := staticIfacePayload(targetArg)
	if !ok {
		f.havocAll(st)
		ex.vc.Unsupported(fmt.Sprintf("%s: decode into a target of unknown static type (everything havoc'd)", f.fn.String()))
		return errV
	}
	pv := f.val(payload, st)
	pt, isPtr := payload.Type().Underlying().(*types.Pointer)
	if !isPtr {
		return errV // decoding into a non-pointer fails at run time, no effect
	}
	elem := pt.Elem()
	s := ex.reg.SortOf(elem)
	ufn := ex.reg.UFun(kind+"_"+sortTag(s)+"_"+hashName(types.TypeString(elem, nil)), []Sort{SBytes}, s)
	okfn := ex.reg.UFun(kind+"ok_"+sortTag(s)+"_"+hashName(types.TypeString(elem, nil)), []Sort{SBytes}, SBool)
	// success of decoding is a function of the input bytes
	ex.vc.Assume(eq(eq(app("itag", errV.T), "0"), app(okfn, data.T)))
	decoded := ex.vc.Define("dec", s, app(ufn, data.T))
	for _, inv := range ex.reg.TypeInv(decoded, elem, 0) {
		ex.vc.Assume(inv)
	}
	other := ex.vc.Fresh("decfail", s)
	for _, inv := range ex.reg.TypeInv(other, elem, 0) {
		ex.vc.Assume(inv)
	}
	okc := eq(app("itag", errV.T), "0")
	lv := ex.lvOf(pv)
	if pv.LV == nil {
		f.safety(st, "nil-deref", in, not(eq(pv.T, "0")), "decode into nil pointer")
	}
	ex.storeLV(st, lv, ite(okc, decoded, other))
	// pointers inside a decoded value are freshly allocated objects: bump the break
	nb := ex.vc.Fresh("brk", SInt)
	ex.vc.Assume(fmt.Sprintf("(>= %s %s)", nb, st.brk))
	st.brk = nb
	// and the objects they point to are arbitrary: havoc the heaps of the pointee types reachable in one step
	f.havocPointees(elem, st, 0, map[string]bool{})
	return errV
}

// havocPointees: after decoding, objects reachable through pointer fields are new and arbitrary.
// They are modelled by havocking nothing (the decoded pointers are unconstrained references into
// the existing heap, whose contents at those references are arbitrary anyway because the
// references are unconstrained) — except that they must not be assumed distinct from existing objects.
func (f *Frame) havocPointees(t types.Type, st *PState, depth int, seen map[string]bool) {}

// serializerInvoke models serialize.Serializer methods.
func (f *Frame) serializerInvoke(c *ssa.CallCommon, args []Val, in ssa.Instruction, st *PState, rt types.Type) (Val, bool) {
	ex := f.ex
	n, ok := c.Value.Type().(*types.Named)
	if !ok || n.Obj().Pkg() == nil || n.Obj().Pkg().Path() != modPath+"/serialize" || n.Obj().Name() != "Serializer" {
		return Val{}, false
	}
	ex.vc.trusted["T-SER serialize.Serializer: Deserialize(Serialize(v)) == v; output is a function of the value; no panic"] = true
	switch c.Method.Name() {
	case "Serialize":
		errV := ex.havocVal("ser_err", types.Universe.Lookup("error").Type())
		payload, ok := staticIfacePayload(c.Args[0])
		out := ex.havocVal("ser", types.NewSlice(types.Typ[types.Uint8]))
		if ok {
			pv := f.val(payload, st)
			var vt types.Type = payload.Type()
			var vterm string
			if pt, isPtr := vt.Underlying().(*types.Pointer); isPtr {
				vt = pt.Elem()
				vterm = ex.loadLV(st, ex.lvOf(pv))
			} else {
				vterm = f.plain(pv, st)
			}
			s := ex.reg.SortOf(vt)
			h := hashName(types.TypeString(vt, nil))
			sfn := ex.reg.UFun("ser_"+sortTag(s)+"_"+h, []Sort{s}, SBytes)
			dfn := ex.reg.UFun("deser_"+sortTag(s)+"_"+h, []Sort{SBytes}, s)
			dok := ex.reg.UFun("deserok_"+sortTag(s)+"_"+h, []Sort{SBytes}, SBool)
			ex.vc.Assume(app(dok, app(sfn, vterm)))
			okc := eq(app("itag", errV.T), "0")
			// whether serialisation succeeds is a function of the value (spec: serok(v, "T"))
			sok := ex.reg.UFun("serok_"+sortTag(s)+"_"+h, []Sort{s}, SBool)
			ex.vc.Assume(eq(okc, app(sok, vterm)))
			ex.vc.Assume(implies(okc, eq(out.T, app(sfn, vterm))))
			ex.vc.Assume(eq(app(dfn, app(sfn, vterm)), vterm))
			ex.vc.Assume(not(app("b_nil", app(sfn, vterm))))
			ex.vc.Assume(fmt.Sprintf("(> (str_len (b_str %s)) 0)", app(sfn, vterm)))
		}
		return Val{S: "Tuple", GT: rt, Tuple: []Val{out, errV}}, true
	case "Deserialize":
		payload, ok := staticIfacePayload(c.Args[1])
		if !ok {
			return Val{}, false
		}
		pt, isPtr := payload.Type().Underlying().(*types.Pointer)
		if !isPtr {
			return ex.havocVal("deser_err", rt), true
		}
		elem := pt.Elem()
		s := ex.reg.SortOf(elem)
		h := hashName(types.TypeString(elem, nil))
		dfn := ex.reg.UFun("deser_"+sortTag(s)+"_"+h, []Sort{SBytes}, s)
		pv := f.val(payload, st)
		errV := ex.havocVal("deser_err", types.Universe.Lookup("error").Type())
		dok := ex.reg.UFun("deserok_"+sortTag(s)+"_"+h, []Sort{SBytes}, SBool)
		ex.vc.Assume(eq(eq(app("itag", errV.T), "0"), app(dok, args[0].T)))
		decoded := ex.vc.Define("dec", s, app(dfn, args[0].T))
		for _, inv := range ex.reg.TypeInv(decoded, elem, 0) {
			ex.vc.Assume(inv)
		}
		other := ex.vc.Fresh("decfail", s)
		for _, inv := range ex.reg.TypeInv(other, elem, 0) {
			ex.vc.Assume(inv)
		}
		if pv.LV == nil {
			f.safety(st, "nil-deref", in, not(eq(pv.T, "0")), "deserialize into nil pointer")
		}
		ex.storeLV(st, ex.lvOf(pv), ite(eq(app("itag", errV.T), "0"), decoded, other))
		nb := ex.vc.Fresh("brk", SInt)
		ex.vc.Assume(fmt.Sprintf("(>= %s %s)", nb, st.brk))
		st.brk = nb
		return errV, true
	}
	return Val{}, false
}
