package main

// Symbolic execution of go/ssa functions into passive-form verification
// conditions (DESIGN.md 2.2).

import (
	"fmt"
	"go/constant"
	"go/token"
	"go/types"
	"sort"
	"strings"

	"golang.org/x/tools/go/ssa"
)

// PState is the symbolic state at a program point.
type PState struct {
	reach string
	heap  map[string]string
	epoch int
	brk   string
}

func (s *PState) clone() *PState {
	n := &PState{reach: s.reach, heap: make(map[string]string, len(s.heap)), epoch: s.epoch, brk: s.brk}
	for k, v := range s.heap {
		n.heap[k] = v
	}
	return n
}

type heapSorts map[string]Sort

// Exec is the verification of one top-level function.
type Exec struct {
	lastCbRets [][2]string // (reach, result) per return site of the callback run last by runCallback
	P         *Program
	vc        *VC
	reg       *Registry
	top       *ssa.Function
	safetyTag string
	hsorts    heapSorts
	epochN    int
	expands   map[string]bool
	reprCache map[string]string
	entry     *PState
	depth     int
	stack     []*ssa.Function
	oblPrefix string
	maxInline int
	dryDepth  int
	topFrame  *Frame
	aim       *Clause
	origins   map[int]*epochOrigin // aim mode: where the heaps of an epoch came from
	heapTypes map[string]types.Type
	iterSelf  *iterSelf // the function under verification is itself an iterator whose body is proved (not assumed)
	curMod    *aimMod
	aimAlt    []string
	frames    []*Frame
	topLocs   []Loc // modifies clause of the function under verification, evaluated at entry (nil: no frame)
}

type retInfo struct {
	st      *PState
	results []Val
}

type Frame struct {
	ex       *Exec
	fn       *ssa.Function
	vals     map[ssa.Value]Val
	exit     map[*ssa.BasicBlock]*PState
	params   []Val
	freeVars []Val
	returns  []retInfo
	contract *Contract
	entry    *PState
	names    map[string][]ssa.Value
	dropped  map[string]bool // invariant conjuncts that cannot be evaluated against this body
	deferred []*ssa.Defer    // defers registered in the entry block, run at RunDefers
	loops    map[*ssa.BasicBlock]*loopInfo
	loopOrd  map[*ssa.BasicBlock]int
	iterOrd  int
	curBlock *ssa.BasicBlock
	inlined  bool
}

type loopInfo struct {
	header *ssa.BasicBlock
	body   map[*ssa.BasicBlock]bool
	backs  []*ssa.BasicBlock
	mods   map[string]bool
	modAll bool
	known  bool
}

// H returns the current term of heap `name`, creating its symbol lazily.
func (ex *Exec) H(st *PState, name string, s Sort) string {
	if t, ok := st.heap[name]; ok {
		if !ex.vc.declared[t] && strings.HasPrefix(t, "H") && !strings.Contains(t, "!") {
			ex.vc.Declare(t, s) // lazily created symbol whose declaration was rolled back by a dry run
			if ex.origins != nil {
				if e := epochOfSym(t); e >= 0 {
					ex.originAxiom(e, name, s, t)
				}
			}
		}
		return t
	}
	ex.hsorts[name] = s
	sym := ex.vc.Declare(fmt.Sprintf("H%d_%s", st.epoch, sanitize(name)), s)
	st.heap[name] = sym
	if ex.origins != nil {
		ex.originAxiom(st.epoch, name, s, sym)
	}
	return sym
}

func (ex *Exec) setH(st *PState, name string, s Sort, term string) {
	ex.hsorts[name] = s
	st.heap[name] = ex.vc.Define("h_"+sanitize(name), s, term)
}

func (ex *Exec) heapOfType(t types.Type) (string, Sort) {
	if a, ok := t.Underlying().(*types.Array); ok {
		es := ex.reg.SortOf(a.Elem())
		return "A:" + string(es), ArrS(SInt, ArrS(SInt, es))
	}
	s := ex.reg.SortOf(t)
	if ex.heapTypes != nil {
		ex.heapTypes["H:"+string(s)] = t
	}
	return "H:" + string(s), ArrS(SInt, s)
}

func (ex *Exec) sliceHeap(es Sort) (string, Sort) {
	return "A:" + string(es), ArrS(SInt, ArrS(SInt, es))
}

func (ex *Exec) mapHeaps(m *types.Map) (string, Sort, string, Sort, Sort, Sort) {
	ks, vs := ex.reg.SortOf(m.Key()), ex.reg.SortOf(m.Elem())
	return "MD:" + string(ks) + ":" + string(vs), ArrS(SInt, ArrS(ks, SBool)), "MV:" + string(ks) + ":" + string(vs), ArrS(SInt, ArrS(ks, vs)), ks, vs
}

func (ex *Exec) newEpoch() int { ex.epochN++; return ex.epochN }

// alloc returns a fresh reference.
func (ex *Exec) alloc(st *PState, hint string) string {
	r := ex.vc.Fresh("ref_"+hint, SInt)
	ex.vc.Assume(fmt.Sprintf("(= %s (+ %s 1))", r, st.brk))
	st.brk = r
	return r
}

func (ex *Exec) havocVal(hint string, t types.Type) Val {
	s := ex.reg.SortOf(t)
	if tup, ok := t.(*types.Tuple); ok {
		v := Val{S: "Tuple", GT: t}
		for i := 0; i < tup.Len(); i++ {
			v.Tuple = append(v.Tuple, ex.havocVal(fmt.Sprintf("%s_%d", hint, i), tup.At(i).Type()))
		}
		return v
	}
	sym := ex.vc.Fresh(hint, s)
	for _, inv := range ex.reg.TypeInv(sym, t, 0) {
		ex.vc.Assume(inv)
	}
	return Val{T: sym, S: s, GT: t}
}

// ---------------------------------------------------------------- addresses

func (ex *Exec) loadLV(st *PState, lv *LValue) string {
	if lv.Glob != "" {
		g := ex.reg.Global(lv.Glob, ex.reg.SortOf(lv.GlobT))
		if isErrorType(lv.GlobT) {
			ex.vc.Assume(not(eq(app("itag", g), "0")))
			ex.vc.trusted["A-GLOBALS package-level variables are immutable after init; package-level error variables are non-nil"] = true
		}
		cur := g
		for _, pe := range lv.Path {
			if pe.Index != "" {
				cur = sel(cur, pe.Index)
			} else {
				si := ex.reg.StructInfoOf(pe.T)
				cur = app(si.Fields[pe.Field].Acc, cur)
			}
		}
		return cur
	}
	cur := sel(ex.H(st, lv.Heap, lv.HSort), lv.Base)
	for _, pe := range lv.Path {
		if pe.Index != "" {
			cur = sel(cur, pe.Index)
		} else {
			si := ex.reg.StructInfoOf(pe.T)
			cur = app(si.Fields[pe.Field].Acc, cur)
		}
	}
	return cur
}

func (ex *Exec) updPath(cur string, path []PathElem, val string) string {
	if len(path) == 0 {
		return val
	}
	pe := path[0]
	if pe.Index != "" {
		return sto(cur, pe.Index, ex.updPath(sel(cur, pe.Index), path[1:], val))
	}
	si := ex.reg.StructInfoOf(pe.T)
	inner := ex.updPath(app(si.Fields[pe.Field].Acc, cur), path[1:], val)
	return ex.reg.UpdateField(si, cur, pe.Field, inner)
}

func (ex *Exec) storeLV(st *PState, lv *LValue, val string) {
	if lv.Glob != "" {
		ex.vc.Unsupported("store to package-level variable " + lv.Glob + " ignored (globals are treated as immutable)")
		return
	}
	h := ex.H(st, lv.Heap, lv.HSort)
	root := sel(h, lv.Base)
	if len(lv.Path) > 0 {
		root = ex.vc.Define("root", elemSortOfHeap(lv.HSort), root)
	}
	nv := ex.updPath(root, lv.Path, val)
	ex.setH(st, lv.Heap, lv.HSort, sto(h, lv.Base, nv))
}

func elemSortOfHeap(hs Sort) Sort {
	// hs = (Array Int X)
	s := string(hs)
	s = strings.TrimPrefix(s, "(Array Int ")
	s = strings.TrimSuffix(s, ")")
	return Sort(s)
}

// lvOf turns an address value into an LValue.
func (ex *Exec) lvOf(v Val) *LValue {
	if v.LV != nil {
		return v.LV
	}
	pt, ok := v.GT.Underlying().(*types.Pointer)
	if !ok {
		panic(fmt.Sprintf("lvOf: not a pointer: %v (%s)", v.GT, v.T))
	}
	hn, hs := ex.heapOfType(pt.Elem())
	return &LValue{Heap: hn, HSort: hs, Base: v.T, RootT: pt.Elem()}
}

// ---------------------------------------------------------------- frames

func (ex *Exec) newFrame(fn *ssa.Function) *Frame {
	f := &Frame{ex: ex, fn: fn, vals: map[ssa.Value]Val{}, exit: map[*ssa.BasicBlock]*PState{}, names: map[string][]ssa.Value{}}
	f.contract = ex.P.ContractFor(fn)
	if ex.aim != nil {
		f.contract = nil // aim mode: ordinary contracts (loop invariants of other properties) play no part
	}
	return f
}

func (f *Frame) fail(format string, args ...interface{}) {
	panic(&unsupportedErr{fmt.Sprintf("%s: ", f.fn.String()) + fmt.Sprintf(format, args...)})
}

type unsupportedErr struct{ msg string }

func (e *unsupportedErr) Error() string { return e.msg }

func (f *Frame) pos(i ssa.Instruction) string {
	p := f.fn.Prog.Fset.Position(i.Pos())
	if !p.IsValid() {
		return ""
	}
	fn := p.Filename
	if k := strings.Index(fn, "/repo/"); k >= 0 {
		fn = fn[k+6:]
	}
	return fmt.Sprintf("%s:%d", fn, p.Line)
}

// analyseLoops finds natural loops (back edge = edge to a dominator).
func (f *Frame) analyseLoops() {
	f.loops = map[*ssa.BasicBlock]*loopInfo{}
	f.loopOrd = map[*ssa.BasicBlock]int{}
	for _, b := range f.fn.Blocks {
		for _, s := range b.Succs {
			if s.Dominates(b) {
				li := f.loops[s]
				if li == nil {
					li = &loopInfo{header: s, body: map[*ssa.BasicBlock]bool{s: true}, mods: map[string]bool{}}
					f.loops[s] = li
				}
				li.backs = append(li.backs, b)
				// natural loop: reverse reachability from b up to s
				stack := []*ssa.BasicBlock{b}
				for len(stack) > 0 {
					x := stack[len(stack)-1]
					stack = stack[:len(stack)-1]
					if li.body[x] {
						continue
					}
					li.body[x] = true
					for _, p := range x.Preds {
						stack = append(stack, p)
					}
				}
			}
		}
	}
	var hs []*ssa.BasicBlock
	for h := range f.loops {
		hs = append(hs, h)
	}
	sort.Slice(hs, func(i, j int) bool { return f.blockPos(hs[i]) < f.blockPos(hs[j]) })
	for i, h := range hs {
		f.loopOrd[h] = i + 1
	}
}

func (f *Frame) blockPos(b *ssa.BasicBlock) int {
	// source position of the loop: smallest valid position of an instruction in the header, else block index
	best := token.Pos(0)
	for _, in := range b.Instrs {
		if p := in.Pos(); p.IsValid() && (best == 0 || p < best) {
			best = p
		}
	}
	if best == 0 {
		return 1<<30 + b.Index
	}
	return int(best)
}

func (f *Frame) isBackEdge(from, to *ssa.BasicBlock) bool {
	return to.Dominates(from)
}

// rpo returns blocks in reverse post order ignoring back edges.
func (f *Frame) rpo() []*ssa.BasicBlock {
	seen := map[*ssa.BasicBlock]bool{}
	var post []*ssa.BasicBlock
	var dfs func(b *ssa.BasicBlock)
	dfs = func(b *ssa.BasicBlock) {
		seen[b] = true
		for _, s := range b.Succs {
			if f.isBackEdge(b, s) || seen[s] {
				continue
			}
			dfs(s)
		}
		post = append(post, b)
	}
	dfs(f.fn.Blocks[0])
	out := make([]*ssa.BasicBlock, len(post))
	for i, b := range post {
		out[len(post)-1-i] = b
	}
	return out
}

func (f *Frame) edgeGuard(p, b *ssa.BasicBlock) string {
	st := f.exit[p]
	if st == nil {
		return "false"
	}
	cond := "true"
	if len(p.Instrs) > 0 {
		if iff, ok := p.Instrs[len(p.Instrs)-1].(*ssa.If); ok {
			c := f.val(iff.Cond, st).T
			if p.Succs[0] == b && p.Succs[1] == b {
				cond = "true"
			} else if p.Succs[0] == b {
				cond = c
			} else {
				cond = not(c)
			}
		}
	}
	return and(st.reach, cond)
}

type inEdge struct {
	pred  *ssa.BasicBlock
	guard string
	st    *PState
	idx   int // index in b.Preds
}

func (f *Frame) mergeStates(edges []inEdge) *PState {
	ex := f.ex
	if len(edges) == 1 {
		st := edges[0].st.clone()
		st.reach = ex.vc.Define("rb", SBool, edges[0].guard)
		return st
	}
	gs := make([]string, len(edges))
	for i, e := range edges {
		gs[i] = ex.vc.Define("eg", SBool, e.guard)
	}
	st := &PState{heap: map[string]string{}}
	st.reach = ex.vc.Define("rb", SBool, or(gs...))
	sameEpoch := true
	for _, e := range edges[1:] {
		if e.st.epoch != edges[0].st.epoch {
			sameEpoch = false
		}
	}
	if sameEpoch {
		st.epoch = edges[0].st.epoch
	} else {
		st.epoch = ex.newEpoch()
		if ex.origins != nil {
			o := &epochOrigin{merge: true, guards: gs}
			for _, e := range edges {
				o.edges = append(o.edges, e.st)
			}
			ex.origins[st.epoch] = o
		}
	}
	names := map[string]bool{}
	for _, e := range edges {
		for n := range e.st.heap {
			names[n] = true
		}
	}
	for _, n := range sortedKeys(names) {
		s := ex.hsorts[n]
		vals := make([]string, len(edges))
		same := true
		for i, e := range edges {
			vals[i] = ex.H(e.st, n, s)
			if vals[i] != vals[0] {
				same = false
			}
		}
		if same {
			st.heap[n] = vals[0]
			continue
		}
		t := vals[len(vals)-1]
		for i := len(vals) - 2; i >= 0; i-- {
			t = ite(gs[i], vals[i], t)
		}
		st.heap[n] = ex.vc.Define("hm_"+sanitize(n), s, t)
	}
	// brk
	same := true
	for _, e := range edges[1:] {
		if e.st.brk != edges[0].st.brk {
			same = false
		}
	}
	if same {
		st.brk = edges[0].st.brk
	} else {
		t := edges[len(edges)-1].st.brk
		for i := len(edges) - 2; i >= 0; i-- {
			t = ite(gs[i], edges[i].st.brk, t)
		}
		st.brk = ex.vc.Define("brk", SInt, t)
	}
	// keep guards for phi computation
	for i := range edges {
		edges[i].guard = gs[i]
	}
	return st
}

// run executes the function body from state st; returns the Return sites.
func (f *Frame) run(st *PState) []retInfo {
	ex := f.ex
	fn := f.fn
	if len(fn.Blocks) == 0 {
		f.fail("no body")
	}
	f.entry = st.clone()
	f.analyseLoops()
	for i, p := range fn.Params {
		f.vals[p] = f.params[i]
		f.names[p.Name()] = append(f.names[p.Name()], p)
	}
	for i, fv := range fn.FreeVars {
		if i < len(f.freeVars) {
			f.vals[fv] = f.freeVars[i]
		} else {
			f.vals[fv] = ex.havocVal("fv_"+fv.Name(), fv.Type())
		}
		f.names[fv.Name()] = append(f.names[fv.Name()], fv)
	}
	order := f.rpo()
	for _, b := range order {
		if fn.Recover != nil && b == fn.Recover {
			continue
		}
		var st0 *PState
		var edges []inEdge
		if b == fn.Blocks[0] {
			st0 = st
		} else {
			for i, p := range b.Preds {
				if f.isBackEdge(p, b) || f.exit[p] == nil {
					continue
				}
				edges = append(edges, inEdge{pred: p, guard: f.edgeGuard(p, b), st: f.exit[p], idx: i})
			}
			if len(edges) == 0 {
				continue
			}
			st0 = f.mergeStates(edges)
		}
		f.curBlock = b
		f.execBlock(b, st0, edges)
	}
	return f.returns
}

func (f *Frame) phiMerge(phi *ssa.Phi, edges []inEdge) Val {
	t := ""
	var s Sort = f.ex.reg.SortOf(phi.Type())
	for i := len(edges) - 1; i >= 0; i-- {
		e := edges[i]
		v := f.val(phi.Edges[e.idx], e.st)
		vt := f.plain(v, e.st)
		if t == "" {
			t = vt
		} else {
			t = ite(e.guard, vt, t)
		}
	}
	return Val{T: f.ex.vc.Define("phi_"+phi.Name(), s, t), S: s, GT: phi.Type()}
}

// plain materialises a Val as an ordinary term (interior pointers are not representable).
func (f *Frame) plain(v Val, st *PState) string {
	if v.LV != nil {
		if len(v.LV.Path) == 0 && v.LV.Glob == "" {
			return v.LV.Base
		}
		f.ex.vc.Unsupported(fmt.Sprintf("%s: interior pointer used as a value (modelled as an unconstrained pointer)", f.fn.String()))
		return f.ex.vc.Fresh("iptr", SInt)
	}
	return v.T
}

func (f *Frame) execBlock(b *ssa.BasicBlock, st *PState, edges []inEdge) {
	ex := f.ex
	li := f.loops[b]
	if li != nil {
		f.loopHeader(b, li, st, edges)
	} else {
		for _, in := range b.Instrs {
			phi, ok := in.(*ssa.Phi)
			if !ok {
				break
			}
			f.vals[phi] = f.phiMerge(phi, edges)
			if phi.Comment != "" {
				f.names[phi.Comment] = append(f.names[phi.Comment], phi)
			}
		}
	}
	for _, in := range b.Instrs {
		if _, ok := in.(*ssa.Phi); ok {
			continue
		}
		f.instr(in, st)
	}
	f.exit[b] = st
	// back edges out of this block: invariant preservation
	for _, s := range b.Succs {
		if f.isBackEdge(b, s) {
			if li2 := f.loops[s]; li2 != nil {
				f.loopBackEdge(b, s, li2, st)
			}
		}
	}
	_ = ex
}

// ---------------------------------------------------------------- values

func (f *Frame) val(v ssa.Value, st *PState) Val {
	if x, ok := f.vals[v]; ok {
		return x
	}
	ex := f.ex
	switch c := v.(type) {
	case *ssa.Const:
		return ex.constVal(c)
	case *ssa.Global:
		name := "g_" + sanitize(shortPkg(c.Pkg.Pkg.Path())+"."+c.Name())
		pt := c.Type().(*types.Pointer)
		return Val{GT: c.Type(), S: SInt, LV: &LValue{Glob: name, GlobT: pt.Elem()}}
	case *ssa.Function:
		id := ex.reg.Global("fn_"+sanitize(c.String()), SInt)
		return Val{T: id, S: SInt, GT: c.Type(), Clos: &Closure{Fn: c}}
	case *ssa.Builtin:
		return Val{T: "0", S: SInt, GT: c.Type()}
	}
	f.fail("value %s (%T) used before definition", v.Name(), v)
	return Val{}
}

func (ex *Exec) constVal(c *ssa.Const) Val {
	t := c.Type()
	s := ex.reg.SortOf(t)
	if c.Value == nil {
		return Val{T: ex.reg.ZeroValue(t), S: s, GT: t}
	}
	switch c.Value.Kind() {
	case constant.Bool:
		if constant.BoolVal(c.Value) {
			return Val{T: "true", S: SBool, GT: t}
		}
		return Val{T: "false", S: SBool, GT: t}
	case constant.String:
		return Val{T: ex.reg.StrLit(constant.StringVal(c.Value)), S: SStr, GT: t}
	case constant.Int:
		if s == SF64 {
			return Val{T: ex.f64Const(c.Value), S: SF64, GT: t}
		}
		str := c.Value.ExactString()
		if strings.HasPrefix(str, "-") {
			str = "(- " + str[1:] + ")"
		}
		return Val{T: str, S: SInt, GT: t}
	case constant.Float:
		if s == SInt {
			return Val{T: "0", S: SInt, GT: t}
		}
		return Val{T: ex.f64Const(c.Value), S: SF64, GT: t}
	}
	return Val{T: ex.reg.ZeroValue(t), S: s, GT: t}
}

func (f *Frame) setVal(v ssa.Value, term string, st *PState) {
	s := f.ex.reg.SortOf(v.Type())
	f.vals[v] = Val{T: f.ex.vc.Define("v_"+v.Name(), s, term), S: s, GT: v.Type()}
}

func (f *Frame) safety(st *PState, kind string, in ssa.Instruction, cond string, desc string) {
	ex := f.ex
	if ex.safetyTag == "" || cond == "true" {
		// without a safety tag the failing path is simply not followed (partial correctness)
		if cond != "true" {
			st.reach = ex.vc.Define("rs", SBool, and(st.reach, cond))
		}
		return
	}
	ex.vc.AddObligation(&Obligation{
		Name: fmt.Sprintf("%s/%s/%s", ex.safetyTag, ex.oblPrefix, kind+f.inlineSuffix()),
		Tag:  ex.safetyTag, Kind: "safety:" + kind, Func: ex.top.String(),
		Goal: implies(st.reach, cond), Pos: f.pos(in), Desc: desc,
	})
	st.reach = ex.vc.Define("rs", SBool, and(st.reach, cond))
}

func (f *Frame) inlineSuffix() string {
	if f.inlined {
		return "@" + shortFn(f.fn)
	}
	return ""
}

func shortFn(fn *ssa.Function) string {
	s := fn.String()
	s = strings.ReplaceAll(s, "github.com/Oneledger/protocol/", "")
	return s
}

// ---------------------------------------------------------------- instructions

func (f *Frame) instr(in ssa.Instruction, st *PState) {
	ex := f.ex
	switch i := in.(type) {
	case *ssa.DebugRef:
		if i.X != nil {
			if ident := identName(i); ident != "" {
				f.names[ident] = append(f.names[ident], i.X)
			}
		}
	case *ssa.Alloc:
		elem := i.Type().(*types.Pointer).Elem()
		r := ex.alloc(st, i.Name())
		hn, hs := ex.heapOfType(elem)
		var zero string
		if _, ok := elem.Underlying().(*types.Array); ok {
			a := elem.Underlying().(*types.Array)
			zero = ex.reg.ConstArray(SInt, ex.reg.SortOf(a.Elem()), ex.reg.ZeroValue(a.Elem()))
		} else {
			zero = ex.reg.ZeroValue(elem)
		}
		ex.setH(st, hn, hs, sto(ex.H(st, hn, hs), r, zero))
		f.vals[i] = Val{T: r, S: SInt, GT: i.Type()}
		if i.Comment != "" {
			f.names[i.Comment] = append(f.names[i.Comment], i)
		}
	case *ssa.UnOp:
		f.unop(i, st)
	case *ssa.BinOp:
		f.binop(i, st)
	case *ssa.Store:
		addr := f.val(i.Addr, st)
		v := f.val(i.Val, st)
		lv := ex.lvOf(addr)
		if addr.LV == nil {
			f.safety(st, "nil-deref", i, not(eq(addr.T, "0")), "store through possibly nil pointer")
		}
		ex.storeLV(st, lv, f.plain(v, st))
	case *ssa.FieldAddr:
		x := f.val(i.X, st)
		if x.LV == nil {
			f.safety(st, "nil-deref", i, not(eq(x.T, "0")), "field address of possibly nil pointer")
		}
		lv := *ex.lvOf(x)
		stT := i.X.Type().Underlying().(*types.Pointer).Elem()
		lv.Path = append(append([]PathElem{}, lv.Path...), PathElem{Field: i.Field, T: stT})
		f.vals[i] = Val{GT: i.Type(), S: SInt, LV: &lv}
	case *ssa.Field:
		x := f.val(i.X, st)
		si := ex.reg.StructInfoOf(i.X.Type())
		if si == nil {
			f.vals[i] = ex.havocVal("fld", i.Type())
			break
		}
		f.setVal(i, app(si.Fields[i.Field].Acc, x.T), st)
	case *ssa.IndexAddr:
		f.indexAddr(i, st)
	case *ssa.Index:
		x := f.val(i.X, st)
		idx := f.val(i.Index, st)
		switch u := i.X.Type().Underlying().(type) {
		case *types.Array:
			f.safety(st, "index", i, and(fmt.Sprintf("(<= 0 %s)", idx.T), fmt.Sprintf("(< %s %d)", idx.T, u.Len())), "array index in range")
			f.setVal(i, sel(x.T, idx.T), st)
		case *types.Basic: // string
			f.safety(st, "index", i, and(fmt.Sprintf("(<= 0 %s)", idx.T), fmt.Sprintf("(< %s (str_len %s))", idx.T, x.T)), "string index in range")
			f.setVal(i, app("str_at", x.T, idx.T), st)
			ex.vc.Assume(fmt.Sprintf("(and (<= 0 %s) (<= %s 255))", f.vals[i].T, f.vals[i].T))
		default:
			f.fail("Index on %v", i.X.Type())
		}
	case *ssa.Lookup:
		f.lookup(i, st)
	case *ssa.MapUpdate:
		m := f.val(i.Map, st)
		k := f.val(i.Key, st)
		v := f.val(i.Value, st)
		mt := i.Map.Type().Underlying().(*types.Map)
		dn, ds, vn, vs, _, _ := ex.mapHeaps(mt)
		f.safety(st, "nil-map", i, not(eq(m.T, "0")), "assignment to entry in possibly nil map")
		d := ex.H(st, dn, ds)
		vv := ex.H(st, vn, vs)
		ex.setH(st, dn, ds, sto(d, m.T, sto(sel(d, m.T), k.T, "true")))
		ex.setH(st, vn, vs, sto(vv, m.T, sto(sel(vv, m.T), k.T, f.plain(v, st))))
	case *ssa.MakeMap:
		r := ex.alloc(st, i.Name())
		mt := i.Type().Underlying().(*types.Map)
		dn, ds, _, _, ks, _ := ex.mapHeaps(mt)
		ex.setH(st, dn, ds, sto(ex.H(st, dn, ds), r, ex.reg.ConstArray(ks, SBool, "false")))
		f.vals[i] = Val{T: r, S: SInt, GT: i.Type()}
	case *ssa.MakeSlice:
		r := ex.alloc(st, i.Name())
		sl := i.Type().Underlying().(*types.Slice)
		ln := f.val(i.Len, st)
		if isByteSlice(i.Type()) {
			v := ex.havocVal("mkbytes", i.Type())
			ex.vc.Assume(and(not(app("b_nil", v.T)), eq(app("str_len", app("b_str", v.T)), ln.T)))
			f.vals[i] = v
			break
		}
		es := ex.reg.SortOf(sl.Elem())
		hn, hs := ex.sliceHeap(es)
		ex.setH(st, hn, hs, sto(ex.H(st, hn, hs), r, ex.reg.ConstArray(SInt, es, ex.reg.ZeroValue(sl.Elem()))))
		ss := ex.reg.SortOf(i.Type())
		f.safety(st, "makeslice", i, fmt.Sprintf("(>= %s 0)", ln.T), "make with non-negative length")
		f.setVal(i, fmt.Sprintf("(mk_%s %s 0 %s)", ss, r, ln.T), st)
	case *ssa.MakeClosure:
		fn := i.Fn.(*ssa.Function)
		var bs []Val
		for _, b := range i.Bindings {
			bs = append(bs, f.val(b, st))
		}
		r := ex.alloc(st, "clos")
		f.vals[i] = Val{T: r, S: SInt, GT: i.Type(), Clos: &Closure{Fn: fn, Bindings: bs}}
	case *ssa.MakeInterface:
		f.makeInterface(i, st)
	case *ssa.ChangeInterface:
		x := f.val(i.X, st)
		f.vals[i] = Val{T: x.T, S: SIface, GT: i.Type()}
	case *ssa.ChangeType:
		x := f.val(i.X, st)
		nv := x
		nv.GT = i.Type()
		nv.S = ex.reg.SortOf(i.Type())
		if nv.S != x.S {
			// value conversion between distinct named struct types with identical underlying types
			nv.T = ex.reg.convertStruct(x.T, i.X.Type(), i.Type())
		}
		if x.LV != nil {
			// pointer conversion between types with identical underlying types
			lv := *x.LV
			nv.LV = &lv
		}
		f.vals[i] = nv
	case *ssa.Convert:
		f.convert(i, st)
	case *ssa.TypeAssert:
		f.typeAssert(i, st)
	case *ssa.Extract:
		t := f.val(i.Tuple, st)
		if i.Index < len(t.Tuple) {
			f.vals[i] = t.Tuple[i.Index]
		} else {
			f.vals[i] = ex.havocVal("ext", i.Type())
		}
	case *ssa.Slice:
		f.slice(i, st)
	case *ssa.Range:
		x := f.val(i.X, st)
		f.vals[i] = Val{T: x.T, S: x.S, GT: i.X.Type()}
	case *ssa.Next:
		f.next(i, st)
	case *ssa.Call:
		f.call(i, st)
	case *ssa.Defer:
		// only mutex unlocks / handlePanic-style defers occur in the functions under contract; they do not touch verified state
		callee := i.Call.StaticCallee()
		name := ""
		if callee != nil {
			name = callee.String()
		}
		if strings.Contains(name, "sync.") || strings.Contains(name, "handlePanic") || strings.Contains(name, "Unlock") {
			break
		}
		if i.Block().Index == 0 && ex.aim == nil {
			// registered unconditionally at function entry: executed at every RunDefers (normal returns; a panicking
			// path simply ends). SSA values are immutable, so evaluating the operands at RunDefers gives the values
			// they had here.
			f.deferred = append(f.deferred, i)
			break
		}
		ex.vc.Unsupported(fmt.Sprintf("%s: defer %s ignored", f.fn.String(), name))
	case *ssa.RunDefers:
		for k := len(f.deferred) - 1; k >= 0; k-- {
			d := f.deferred[k]
			f.callCommon(&d.Call, d, st, d.Call.Signature().Results())
		}
	case *ssa.Jump, *ssa.If:
	case *ssa.Return:
		var rs []Val
		for _, r := range i.Results {
			v := f.val(r, st)
			rs = append(rs, Val{T: f.plain(v, st), S: ex.reg.SortOf(r.Type()), GT: r.Type(), Clos: v.Clos})
		}
		f.returns = append(f.returns, retInfo{st: st.clone(), results: rs})
	case *ssa.Panic:
		f.safety(st, "panic", i, "false", "explicit panic reachable")
		st.reach = "false"
	case *ssa.Go, *ssa.Send, *ssa.Select:
		f.fail("goroutines/channels are outside the verified subset")
	case *ssa.SliceToArrayPointer:
		f.fail("slice to array pointer")
	default:
		f.fail("unsupported instruction %T", in)
	}
}

func identName(d *ssa.DebugRef) string {
	if d.IsAddr {
		return ""
	}
	return astIdentName(d.Expr)
}

func (f *Frame) unop(i *ssa.UnOp, st *PState) {
	ex := f.ex
	x := f.val(i.X, st)
	switch i.Op {
	case token.MUL: // load
		lv := ex.lvOf(x)
		if x.LV == nil {
			f.safety(st, "nil-deref", i, not(eq(x.T, "0")), "load through possibly nil pointer")
		}
		t := ex.loadLV(st, lv)
		f.setVal(i, t, st)
		v := f.vals[i]
		// loaded values satisfy their type invariant and are not future allocations
		for _, inv := range ex.reg.TypeInv(v.T, i.Type(), 0) {
			ex.vc.Assume(inv)
		}
		f.assumeAllocated(v.T, i.Type(), st, 0)
	case token.NOT:
		f.setVal(i, not(x.T), st)
	case token.SUB:
		if x.S == SF64 {
			f.setVal(i, app(ex.reg.UFun("f64_neg", []Sort{SF64}, SF64), x.T), st)
			return
		}
		f.setVal(i, f.wrap(i.Type(), "(- "+x.T+")"), st)
	case token.XOR:
		f.vals[i] = ex.havocVal("xor", i.Type())
	case token.ARROW:
		f.fail("channel receive")
	default:
		f.fail("unop %v", i.Op)
	}
}

// assumeAllocated: pointers found in a loaded value are <= the current break.
func (f *Frame) assumeAllocated(term string, t types.Type, st *PState, depth int) {
	if depth > 2 || isBigInt(t) || isTime(t) || isBigFloat(t) {
		return
	}
	ex := f.ex
	switch u := t.Underlying().(type) {
	case *types.Pointer, *types.Map:
		ex.vc.Assume(fmt.Sprintf("(<= %s %s)", term, st.brk))
	case *types.Interface:
		ex.vc.Assume(fmt.Sprintf("(<= (ival %s) %s)", term, st.brk))
	case *types.Slice:
		if !isByteSlice(t) {
			s := ex.reg.SortOf(t)
			ex.vc.Assume(fmt.Sprintf("(<= (arr_%s %s) %s)", s, term, st.brk))
		}
	case *types.Struct:
		si := ex.reg.StructInfoOf(t)
		if si == nil {
			return
		}
		for _, fl := range si.Fields {
			f.assumeAllocated(app(fl.Acc, term), fl.T, st, depth+1)
		}
		_ = u
	}
}

func (f *Frame) wrap(t types.Type, term string) string {
	if b, ok := t.Underlying().(*types.Basic); ok && b.Info()&types.IsInteger != 0 {
		_, _, w := intRange(b)
		if w != "" {
			return app(w, term)
		}
	}
	return term
}

func (f *Frame) binop(i *ssa.BinOp, st *PState) {
	ex := f.ex
	x, y := f.val(i.X, st), f.val(i.Y, st)
	xt, yt := f.plain(x, st), f.plain(y, st)
	s := ex.reg.SortOf(i.X.Type())
	isInt := false
	if b, ok := i.X.Type().Underlying().(*types.Basic); ok && b.Info()&types.IsInteger != 0 {
		isInt = true
	}
	switch i.Op {
	case token.EQL, token.NEQ:
		var t string
		switch {
		case s == SBytes:
			t = eq(app("b_nil", xt), app("b_nil", yt))
		case isSliceSort(s):
			// only comparison with nil is legal in Go
			t = eq(app("arr_"+string(s), xt), app("arr_"+string(s), yt))
		case s == SIface:
			// comparison of interfaces: equal tags and payloads (pointer payloads); boxed values compare by box identity,
			// which is exact for comparison against nil and against package-level sentinel errors
			t = eq(xt, yt)
		default:
			t = eq(xt, yt)
		}
		if i.Op == token.NEQ {
			t = not(t)
		}
		f.setVal(i, t, st)
		return
	}
	if s == SStr {
		switch i.Op {
		case token.ADD:
			f.setVal(i, ex.strCat(xt, yt), st)
		case token.LSS:
			f.setVal(i, app("str_lt", xt, yt), st)
		case token.GTR:
			f.setVal(i, app("str_lt", yt, xt), st)
		case token.LEQ:
			f.setVal(i, not(app("str_lt", yt, xt)), st)
		case token.GEQ:
			f.setVal(i, not(app("str_lt", xt, yt)), st)
		default:
			f.fail("string binop %v", i.Op)
		}
		return
	}
	if s == SF64 {
		name := map[token.Token]string{token.ADD: "f64_add", token.SUB: "f64_sub", token.MUL: "f64_mul", token.QUO: "f64_div"}[i.Op]
		if name != "" {
			f.setVal(i, app(ex.reg.UFun(name, []Sort{SF64, SF64}, SF64), xt, yt), st)
			return
		}
		cmp := map[token.Token]string{token.LSS: "f64_lt", token.LEQ: "f64_le"}
		switch i.Op {
		case token.LSS, token.LEQ:
			f.setVal(i, app(ex.reg.UFun(cmp[i.Op], []Sort{SF64, SF64}, SBool), xt, yt), st)
		case token.GTR:
			f.setVal(i, app(ex.reg.UFun("f64_lt", []Sort{SF64, SF64}, SBool), yt, xt), st)
		case token.GEQ:
			f.setVal(i, app(ex.reg.UFun("f64_le", []Sort{SF64, SF64}, SBool), yt, xt), st)
		default:
			f.fail("float binop %v", i.Op)
		}
		return
	}
	if s == SBool {
		switch i.Op {
		case token.AND, token.LAND:
			f.setVal(i, and(xt, yt), st)
			return
		case token.OR, token.LOR:
			f.setVal(i, or(xt, yt), st)
			return
		}
	}
	if !isInt {
		f.fail("binop %v on %v", i.Op, i.X.Type())
	}
	switch i.Op {
	case token.ADD:
		f.setVal(i, f.wrap(i.Type(), "(+ "+xt+" "+yt+")"), st)
	case token.SUB:
		f.setVal(i, f.wrap(i.Type(), "(- "+xt+" "+yt+")"), st)
	case token.MUL:
		f.setVal(i, f.wrap(i.Type(), "(* "+xt+" "+yt+")"), st)
	case token.QUO:
		f.safety(st, "div-zero", i, not(eq(yt, "0")), "integer division by zero")
		f.setVal(i, f.wrap(i.Type(), app("go_div", xt, yt)), st)
	case token.REM:
		f.safety(st, "div-zero", i, not(eq(yt, "0")), "integer modulo by zero")
		f.setVal(i, app("go_rem", xt, yt), st)
	case token.LSS:
		f.setVal(i, "(< "+xt+" "+yt+")", st)
	case token.LEQ:
		f.setVal(i, "(<= "+xt+" "+yt+")", st)
	case token.GTR:
		f.setVal(i, "(> "+xt+" "+yt+")", st)
	case token.GEQ:
		f.setVal(i, "(>= "+xt+" "+yt+")", st)
	case token.SHL:
		if c, ok := i.Y.(*ssa.Const); ok && c.Value != nil {
			if n, ok2 := constant.Int64Val(constant.ToInt(c.Value)); ok2 && n >= 0 && n < 63 {
				f.setVal(i, f.wrap(i.Type(), fmt.Sprintf("(* %s %d)", xt, int64(1)<<uint(n))), st)
				return
			}
		}
		f.vals[i] = ex.havocVal("shl", i.Type())
	case token.SHR:
		if c, ok := i.Y.(*ssa.Const); ok && c.Value != nil {
			if n, ok2 := constant.Int64Val(constant.ToInt(c.Value)); ok2 && n >= 0 && n < 63 {
				f.setVal(i, fmt.Sprintf("(div %s %d)", xt, int64(1)<<uint(n)), st)
				return
			}
		}
		f.vals[i] = ex.havocVal("shr", i.Type())
	case token.AND, token.OR, token.XOR, token.AND_NOT:
		f.vals[i] = ex.havocVal("bitop", i.Type())
	default:
		f.fail("binop %v", i.Op)
	}
}

func isSliceSort(s Sort) bool { return strings.HasPrefix(string(s), "Sl_") }

// strCat builds a concatenation term and states its basic facts.
func (ex *Exec) strCat(a, b string) string {
	if a == "str_empty" {
		return b
	}
	if b == "str_empty" {
		return a
	}
	t := app("str_cat", a, b)
	n := ex.vc.Define("cat", SStr, t)
	ex.vc.Assume(fmt.Sprintf("(= (str_len %s) (+ (str_len %s) (str_len %s)))", n, a, b))
	ex.vc.Assume(fmt.Sprintf("(=> (= %s str_empty) (= %s %s))", a, n, b))
	ex.vc.Assume(fmt.Sprintf("(=> (= %s str_empty) (= %s %s))", b, n, a))
	return n
}

func (f *Frame) indexAddr(i *ssa.IndexAddr, st *PState) {
	ex := f.ex
	x := f.val(i.X, st)
	idx := f.val(i.Index, st)
	switch u := i.X.Type().Underlying().(type) {
	case *types.Slice:
		if isByteSlice(i.X.Type()) {
			// element address of a byte slice: only loads are supported (see unsupported list for stores)
			f.safety(st, "index", i, and(fmt.Sprintf("(<= 0 %s)", idx.T), fmt.Sprintf("(< %s (str_len (b_str %s)))", idx.T, x.T)), "byte slice index in range")
			// model as a fresh cell holding the byte
			r := ex.alloc(st, "bytecell")
			hn, hs := ex.heapOfType(u.Elem())
			bv := ex.vc.Define("byte", SInt, app("str_at", app("b_str", x.T), idx.T))
			ex.vc.Assume(fmt.Sprintf("(and (<= 0 %s) (<= %s 255))", bv, bv))
			ex.setH(st, hn, hs, sto(ex.H(st, hn, hs), r, bv))
			f.vals[i] = Val{T: r, S: SInt, GT: i.Type()}
			// a Store through this address would be lost
			for _, ref := range *i.Referrers() {
				if s, ok := ref.(*ssa.Store); ok && s.Addr == i {
					f.fail("in-place write into a []byte is outside the modelled subset (byte slices are immutable values)")
				}
			}
			return
		}
		s := ex.reg.SortOf(i.X.Type())
		es := ex.reg.SortOf(u.Elem())
		f.safety(st, "index", i, and(fmt.Sprintf("(<= 0 %s)", idx.T), fmt.Sprintf("(< %s (len_%s %s))", idx.T, s, x.T)), "slice index in range")
		hn, hs := ex.sliceHeap(es)
		pos := fmt.Sprintf("(+ (off_%s %s) %s)", s, x.T, idx.T)
		lv := &LValue{Heap: hn, HSort: hs, Base: app("arr_"+string(s), x.T), RootT: types.NewArray(u.Elem(), 0), Path: []PathElem{{Field: -1, Index: pos}}}
		f.vals[i] = Val{GT: i.Type(), S: SInt, LV: lv}
	case *types.Pointer:
		arr := u.Elem().Underlying().(*types.Array)
		if x.LV == nil {
			f.safety(st, "nil-deref", i, not(eq(x.T, "0")), "index through possibly nil array pointer")
		}
		f.safety(st, "index", i, and(fmt.Sprintf("(<= 0 %s)", idx.T), fmt.Sprintf("(< %s %d)", idx.T, arr.Len())), "array index in range")
		lv := *ex.lvOf(x)
		lv.Path = append(append([]PathElem{}, lv.Path...), PathElem{Field: -1, Index: idx.T})
		f.vals[i] = Val{GT: i.Type(), S: SInt, LV: &lv}
	default:
		f.fail("IndexAddr on %v", i.X.Type())
	}
}

func (f *Frame) lookup(i *ssa.Lookup, st *PState) {
	ex := f.ex
	x := f.val(i.X, st)
	k := f.val(i.Index, st)
	switch u := i.X.Type().Underlying().(type) {
	case *types.Map:
		dn, ds, vn, vs, _, _ := ex.mapHeaps(u)
		has := ex.vc.Define("mhas", SBool, and(not(eq(x.T, "0")), sel(sel(ex.H(st, dn, ds), x.T), k.T)))
		vsort := ex.reg.SortOf(u.Elem())
		v := ex.vc.Define("mval", vsort, ite(has, sel(sel(ex.H(st, vn, vs), x.T), k.T), ex.reg.ZeroValue(u.Elem())))
		for _, inv := range ex.reg.TypeInv(v, u.Elem(), 0) {
			ex.vc.Assume(inv)
		}
		f.assumeAllocated(v, u.Elem(), st, 0)
		if i.CommaOk {
			f.vals[i] = Val{S: "Tuple", GT: i.Type(), Tuple: []Val{{T: v, S: vsort, GT: u.Elem()}, {T: has, S: SBool, GT: types.Typ[types.Bool]}}}
		} else {
			f.vals[i] = Val{T: v, S: vsort, GT: i.Type()}
		}
	case *types.Basic:
		f.safety(st, "index", i, and(fmt.Sprintf("(<= 0 %s)", k.T), fmt.Sprintf("(< %s (str_len %s))", k.T, x.T)), "string index in range")
		f.setVal(i, app("str_at", x.T, k.T), st)
		ex.vc.Assume(fmt.Sprintf("(and (<= 0 %s) (<= %s 255))", f.vals[i].T, f.vals[i].T))
	default:
		f.fail("Lookup on %v", i.X.Type())
	}
}

func (f *Frame) makeInterface(i *ssa.MakeInterface, st *PState) {
	ex := f.ex
	x := f.val(i.X, st)
	xt := i.X.Type()
	tag := ex.reg.TypeTag(xt)
	switch xt.Underlying().(type) {
	case *types.Pointer:
		f.setVal(i, fmt.Sprintf("(mk_iface %d %s)", tag, f.plain(x, st)), st)
	default:
		// box the value
		r := ex.alloc(st, "box")
		hn, hs := ex.heapOfType(xt)
		ex.setH(st, hn, hs, sto(ex.H(st, hn, hs), r, f.plain(x, st)))
		f.setVal(i, fmt.Sprintf("(mk_iface %d %s)", tag, r), st)
	}
	v := f.vals[i]
	v.Clos = x.Clos
	f.vals[i] = v
}

func (f *Frame) typeAssert(i *ssa.TypeAssert, st *PState) {
	ex := f.ex
	x := f.val(i.X, st)
	at := i.AssertedType
	var ok, val string
	var vs Sort = ex.reg.SortOf(at)
	if _, isI := at.Underlying().(*types.Interface); isI {
		okv := ex.vc.Fresh("ta_ok", SBool)
		ex.vc.Assume(implies(eq(app("itag", x.T), "0"), not(okv)))
		// a value whose static type already implements the target interface always converts when non-nil
		if types.Implements(i.X.Type(), at.Underlying().(*types.Interface)) {
			ex.vc.Assume(implies(not(eq(app("itag", x.T), "0")), okv))
		}
		ok, val = okv, x.T
	} else {
		tag := ex.reg.TypeTag(at)
		ok = ex.vc.Define("ta_ok", SBool, eq(app("itag", x.T), fmt.Sprint(tag)))
		if _, isP := at.Underlying().(*types.Pointer); isP {
			val = app("ival", x.T)
		} else {
			hn, hs := ex.heapOfType(at)
			val = sel(ex.H(st, hn, hs), app("ival", x.T))
		}
	}
	if i.CommaOk {
		v := ex.vc.Define("ta_v", vs, ite(ok, val, ex.reg.ZeroValue(at)))
		f.vals[i] = Val{S: "Tuple", GT: i.Type(), Tuple: []Val{{T: v, S: vs, GT: at}, {T: ok, S: SBool, GT: types.Typ[types.Bool]}}}
		return
	}
	f.safety(st, "type-assert", i, ok, "unchecked type assertion")
	f.setVal(i, val, st)
}

func (f *Frame) convert(i *ssa.Convert, st *PState) {
	ex := f.ex
	x := f.val(i.X, st)
	from, to := i.X.Type(), i.Type()
	fs, ts := ex.reg.SortOf(from), ex.reg.SortOf(to)
	switch {
	case fs == SInt && ts == SInt:
		if isTime(to) || isBigInt(to) {
			f.vals[i] = Val{T: x.T, S: SInt, GT: to}
			return
		}
		f.setVal(i, f.wrap(to, x.T), st)
	case fs == SStr && ts == SBytes:
		f.setVal(i, fmt.Sprintf("(mk_bytes false %s)", x.T), st)
	case fs == SBytes && ts == SStr:
		f.setVal(i, app("b_str", x.T), st)
	case fs == SBytes && ts == SBytes, fs == SStr && ts == SStr:
		f.vals[i] = Val{T: x.T, S: ts, GT: to}
	case fs == SInt && ts == SStr:
		f.setVal(i, app(ex.reg.UFun("rune_str", []Sort{SInt}, SStr), x.T), st)
	case fs == SInt && ts == SF64:
		f.setVal(i, app(ex.reg.UFun("f64_of_int", []Sort{SInt}, SF64), x.T), st)
	case fs == SF64 && ts == SInt:
		v := ex.havocVal("f2i", to)
		ex.vc.Assume(eq(v.T, f.wrap(to, app(ex.reg.UFun("int_of_f64", []Sort{SF64}, SInt), x.T))))
		f.vals[i] = v
	case fs == SF64 && ts == SF64:
		f.vals[i] = Val{T: x.T, S: ts, GT: to}
	case fs == ts:
		f.vals[i] = Val{T: x.T, S: ts, GT: to, LV: x.LV}
	default:
		f.vals[i] = ex.havocVal("conv", to)
		ex.vc.Unsupported(fmt.Sprintf("%s: conversion %v -> %v havoc'd", f.fn.String(), from, to))
	}
}

func (f *Frame) slice(i *ssa.Slice, st *PState) {
	ex := f.ex
	x := f.val(i.X, st)
	var lo, hi string
	if i.Low != nil {
		lo = f.val(i.Low, st).T
	} else {
		lo = "0"
	}
	switch u := i.X.Type().Underlying().(type) {
	case *types.Basic: // string
		if i.High != nil {
			hi = f.val(i.High, st).T
		} else {
			hi = app("str_len", x.T)
		}
		f.safety(st, "slice", i, fmt.Sprintf("(and (<= 0 %s) (<= %s %s) (<= %s (str_len %s)))", lo, lo, hi, hi, x.T), "string slice bounds")
		f.setVal(i, app("str_sub", x.T, lo, hi), st)
		v := f.vals[i]
		ex.vc.Assume(eq(app("str_len", v.T), fmt.Sprintf("(- %s %s)", hi, lo)))
		ex.vc.Assume(implies(and(eq(lo, "0"), eq(hi, app("str_len", x.T))), eq(v.T, x.T)))
	case *types.Slice:
		if isByteSlice(i.X.Type()) {
			if i.High != nil {
				hi = f.val(i.High, st).T
			} else {
				hi = app("str_len", app("b_str", x.T))
			}
			// capacity is not modelled: slicing beyond len (within cap) is reported as out of range
			f.safety(st, "slice", i, fmt.Sprintf("(and (<= 0 %s) (<= %s %s) (<= %s (str_len (b_str %s))))", lo, lo, hi, hi, x.T), "byte slice bounds")
			sub := ex.vc.Define("bsub", SStr, app("str_sub", app("b_str", x.T), lo, hi))
			ex.vc.Assume(eq(app("str_len", sub), fmt.Sprintf("(- %s %s)", hi, lo)))
			ex.vc.Assume(implies(and(eq(lo, "0"), eq(hi, app("str_len", app("b_str", x.T)))), eq(sub, app("b_str", x.T))))
			f.setVal(i, fmt.Sprintf("(mk_bytes (and (b_nil %s) (= %s %s)) %s)", x.T, lo, hi, sub), st)
			return
		}
		s := ex.reg.SortOf(i.X.Type())
		if i.High != nil {
			hi = f.val(i.High, st).T
		} else {
			hi = app("len_"+string(s), x.T)
		}
		f.safety(st, "slice", i, fmt.Sprintf("(and (<= 0 %s) (<= %s %s) (<= %s (len_%s %s)))", lo, lo, hi, hi, s, x.T), "slice bounds (capacity not modelled)")
		f.setVal(i, fmt.Sprintf("(mk_%s (arr_%s %s) (+ (off_%s %s) %s) (- %s %s))", s, s, x.T, s, x.T, lo, hi, lo), st)
	case *types.Pointer: // pointer to array
		arr := u.Elem().Underlying().(*types.Array)
		if i.High != nil {
			hi = f.val(i.High, st).T
		} else {
			hi = fmt.Sprint(arr.Len())
		}
		if isByteSlice(i.Type()) {
			v := ex.havocVal("arrbytes", i.Type())
			ex.vc.Assume(and(not(app("b_nil", v.T)), eq(app("str_len", app("b_str", v.T)), fmt.Sprintf("(- %s %s)", hi, lo))))
			f.vals[i] = v
			return
		}
		s := ex.reg.SortOf(i.Type())
		f.safety(st, "slice", i, fmt.Sprintf("(and (<= 0 %s) (<= %s %s) (<= %s %d))", lo, lo, hi, hi, arr.Len()), "array slice bounds")
		f.setVal(i, fmt.Sprintf("(mk_%s %s %s (- %s %s))", s, f.plain(x, st), lo, hi, lo), st)
	default:
		f.fail("Slice on %v", i.X.Type())
	}
}

func (f *Frame) next(i *ssa.Next, st *PState) {
	ex := f.ex
	it := f.val(i.Iter, st)
	tup := i.Type().(*types.Tuple)
	ok := ex.vc.Fresh("next_ok", SBool)
	if i.IsString {
		k := ex.havocVal("next_i", tup.At(1).Type())
		r := ex.havocVal("next_r", tup.At(2).Type())
		ex.vc.Assume(implies(ok, and(fmt.Sprintf("(<= 0 %s)", k.T), fmt.Sprintf("(< %s (str_len %s))", k.T, it.T))))
		f.vals[i] = Val{S: "Tuple", GT: i.Type(), Tuple: []Val{{T: ok, S: SBool, GT: types.Typ[types.Bool]}, k, r}}
		return
	}
	mt := it.GT.Underlying().(*types.Map)
	dn, ds, vn, vs, _, _ := ex.mapHeaps(mt)
	// key/value types: the tuple may carry invalid types for unused components
	k := ex.havocVal("next_k", mt.Key())
	v := ex.havocVal("next_v", mt.Elem())
	ex.vc.Assume(implies(ok, and(not(eq(it.T, "0")), sel(sel(ex.H(st, dn, ds), it.T), k.T), eq(v.T, sel(sel(ex.H(st, vn, vs), it.T), k.T)))))
	f.assumeAllocated(v.T, mt.Elem(), st, 0)
	f.vals[i] = Val{S: "Tuple", GT: i.Type(), Tuple: []Val{{T: ok, S: SBool, GT: types.Typ[types.Bool]}, k, v}}
}

// f64Const: integral float constants are `(f64_of_int n)` so that specs can name them; others are opaque literals.
func (ex *Exec) f64Const(v constant.Value) string {
	if iv := constant.ToInt(v); iv.Kind() == constant.Int {
		if n, ok := constant.Int64Val(iv); ok {
			fn := ex.reg.UFun("f64_of_int", []Sort{SInt}, SF64)
			return app(fn, num(n))
		}
	}
	return ex.reg.F64Lit(v.ExactString())
}
