package main

// Loading of /repo packages, SSA construction, contract tables.

import (
	"fmt"
	"go/types"
	"os"
	"path/filepath"
	"sort"
	"strings"

	"golang.org/x/tools/go/packages"
	"golang.org/x/tools/go/ssa"
	"golang.org/x/tools/go/ssa/ssautil"
)

const modPath = "github.com/Oneledger/protocol"

type Program struct {
	prog      *ssa.Program
	pkgs      []*packages.Package
	byPath    map[string]*packages.Package
	ssaPkgs   map[string]*ssa.Package
	contracts map[string]*Contract      // pkgpath + "." + target
	ifaces    map[string]*IfaceContract // pkgpath + "." + name
	ghosts    map[string]*GhostFunc
	models    map[string]*ModelField
	reprs     map[string][]*Repr
	footprints map[string][]*Footprint
	axioms    []*Axiom
	impls     [][3]string // pkg, concrete, iface
	reg       *Registry
	files     []*ContractFile
	repo      string
	loadSecs  float64
	allTP     []*types.Package
	externIfaces []string
	aimI      *AimInfo
	theorems  map[string]*Theorem
	aimOn     func(tag string) bool // aim mode (C07) is used for contracts whose aimcheck tag it accepts
}

func LoadProgram(repo string, patterns []string) (*Program, error) {
	cfg := &packages.Config{
		Mode:       packages.NeedName | packages.NeedFiles | packages.NeedCompiledGoFiles | packages.NeedImports | packages.NeedDeps | packages.NeedTypes | packages.NeedSyntax | packages.NeedTypesInfo | packages.NeedTypesSizes | packages.NeedModule,
		Dir:        repo,
		BuildFlags: []string{"-tags=verif", "-mod=mod"},
		Env:        append(os.Environ(), "GOFLAGS=-mod=mod", "GOPROXY=off", "GOSUMDB=off", "GOTOOLCHAIN=local"),
	}
	pkgs, err := packages.Load(cfg, patterns...)
	if err != nil {
		return nil, err
	}
	var errs []string
	packages.Visit(pkgs, nil, func(p *packages.Package) {
		if strings.HasPrefix(p.PkgPath, modPath) {
			for _, e := range p.Errors {
				errs = append(errs, e.Error())
			}
		}
	})
	if len(errs) > 0 {
		return nil, fmt.Errorf("package errors:\n%s", strings.Join(errs, "\n"))
	}
	prog, spkgs := ssautil.AllPackages(pkgs, ssa.GlobalDebug|ssa.InstantiateGenerics)
	_ = spkgs
	P := &Program{prog: prog, pkgs: pkgs, byPath: map[string]*packages.Package{}, ssaPkgs: map[string]*ssa.Package{},
		contracts: map[string]*Contract{}, ifaces: map[string]*IfaceContract{}, ghosts: map[string]*GhostFunc{}, models: map[string]*ModelField{},
		reprs: map[string][]*Repr{}, footprints: map[string][]*Footprint{}, reg: NewRegistry(), repo: repo}
	packages.Visit(pkgs, nil, func(p *packages.Package) {
		P.byPath[p.PkgPath] = p
		if p.Types != nil {
			P.allTP = append(P.allTP, p.Types)
		}
	})
	sort.Slice(P.allTP, func(i, j int) bool { return P.allTP[i].Path() < P.allTP[j].Path() })
	// build SSA bodies only for packages of the module
	for _, sp := range prog.AllPackages() {
		if strings.HasPrefix(sp.Pkg.Path(), modPath) {
			sp.Build()
			P.ssaPkgs[sp.Pkg.Path()] = sp
		}
	}
	return P, nil
}

func (P *Program) allTypesPkgs() []*types.Package { return P.allTP }

func (P *Program) typesPkg(path string) *types.Package {
	if p, ok := P.byPath[path]; ok {
		return p.Types
	}
	return nil
}

// LoadContracts reads every verif_contracts*.go file of the module packages that were loaded with syntax.
func (P *Program) LoadContracts() error {
	var paths []string
	for path := range P.byPath {
		if strings.HasPrefix(path, modPath) {
			paths = append(paths, path)
		}
	}
	sort.Strings(paths)
	for _, path := range paths {
		rel := strings.TrimPrefix(strings.TrimPrefix(path, modPath), "/")
		dir := filepath.Join(P.repo, rel)
		matches, _ := filepath.Glob(filepath.Join(dir, "verif_contracts*.go"))
		sort.Strings(matches)
		for _, m := range matches {
			cf, err := ParseContractFile(m, path)
			if err != nil {
				return err
			}
			P.files = append(P.files, cf)
			for _, c := range cf.Funcs {
				key := path + "." + normTarget(c.Target)
				if c.View != "" {
					key += "#view:" + c.View
				}
				if c.Extern {
					key = strings.ReplaceAll(c.Target, " ", "")
				}
				if prev, dup := P.contracts[key]; dup {
					// an aim-only block (aimcheck + clauses tagged with its property) may sit in another file than the
					// function's main contract
					switch {
					case c.aimOnly() && (prev.AimCheck == nil || c.AimCheck == nil):
						prev.mergeAim(c)
					case prev.aimOnly() && (c.AimCheck == nil || prev.AimCheck == nil):
						c.mergeAim(prev)
						P.contracts[key] = c
					default:
						return fmt.Errorf("%s:%d: duplicate contract for %s", c.File, c.Line, c.Target)
					}
					continue
				}
				P.contracts[key] = c
			}
			defer func() {
				for _, c := range P.contracts {
					if c.AimCheck != nil && c.AimInvs == nil {
						c.splitAim()
					}
				}
			}()
			for _, ic := range cf.Ifaces {
				if strings.Contains(ic.Name, "/") {
					P.ifaces[ic.Name] = ic // interface of a dependency, full name
					P.externIfaces = append(P.externIfaces, ic.Name)
				} else if prev := P.ifaces[path+"."+ic.Name]; prev != nil {
					// the same interface may be given in several blocks/files: merge the method contracts
					for mn, mc := range ic.Methods {
						if _, dup := prev.Methods[mn]; dup {
							return fmt.Errorf("%s: duplicate contract for interface method %s.%s", m, ic.Name, mn)
						}
						prev.Methods[mn] = mc
					}
				} else {
					P.ifaces[path+"."+ic.Name] = ic
				}
			}
			for _, th := range cf.Theorems {
				if P.theorems == nil {
					P.theorems = map[string]*Theorem{}
				}
				P.theorems[th.Name] = th
			}
			for _, g := range cf.Ghosts {
				if _, dup := P.ghosts[g.Name]; dup {
					return fmt.Errorf("%s: duplicate ghost func %s", m, g.Name)
				}
				P.ghosts[g.Name] = g
			}
			for _, md := range cf.Models {
				if _, dup := P.models[md.Name]; dup {
					return fmt.Errorf("%s: duplicate model field %s", m, md.Name)
				}
				P.models[md.Name] = md
			}
			for _, r := range cf.Reprs {
				P.reprs[r.Name] = append(P.reprs[r.Name], r)
			}
			for _, fp := range cf.Footprints {
				P.footprints[fp.Name] = append(P.footprints[fp.Name], fp)
			}
			P.axioms = append(P.axioms, cf.Axioms...)
			for _, im := range cf.Impls {
				P.impls = append(P.impls, [3]string{path, im[0], im[1]})
			}
		}
	}
	// views: an extra proof of the same body. A view has no preconditions of its own (callers are checked against the main
	// contract only): it inherits the main contract's requires / assumes, untagged, and may add `assumes` of its own.
	var vkeys []string
	for k, c := range P.contracts {
		if c.View != "" {
			vkeys = append(vkeys, k)
		}
	}
	sort.Strings(vkeys)
	for _, k := range vkeys {
		v := P.contracts[k]
		main := P.contracts[strings.TrimSuffix(k, "#view:"+v.View)]
		if main == nil {
			return fmt.Errorf("%s:%d: view %s of %s without a main contract", v.File, v.Line, v.View, v.Target)
		}
		if len(v.Requires) > 0 || v.Trusted {
			return fmt.Errorf("%s:%d: a view may not state requires clauses (it inherits the main contract's) nor be assumed", v.File, v.Line)
		}
		for _, r := range main.Requires {
			v.Requires = append(v.Requires, Clause{Expr: r.Expr, Src: r.Src})
		}
		for _, a := range main.Assumes {
			v.Assumes = append(v.Assumes, a)
		}
		if v.OpaqueArith == false {
			v.OpaqueArith = main.OpaqueArith
		}
	}
	return nil
}

// normTarget: "(State).Write" and "State.Write" are the same; spaces removed.
func normTarget(t string) string {
	t = strings.ReplaceAll(t, " ", "")
	if strings.HasPrefix(t, "(") {
		return t
	}
	if i := strings.Index(t, "."); i > 0 && !strings.Contains(t, "$") {
		return "(" + t[:i] + ")" + t[i:]
	}
	return t
}

func fnKey(fn *ssa.Function) string {
	if fn.Pkg == nil {
		// synthetic wrapper / method of external type
		if fn.Signature.Recv() != nil {
			if p := recvPkg(fn.Signature.Recv().Type()); p != nil {
				return p.Path() + "." + fn.RelString(p)
			}
		}
		return fn.String()
	}
	return fn.Pkg.Pkg.Path() + "." + fn.RelString(fn.Pkg.Pkg)
}

func recvPkg(t types.Type) *types.Package {
	if p, ok := t.(*types.Pointer); ok {
		t = p.Elem()
	}
	if n, ok := t.(*types.Named); ok {
		return n.Obj().Pkg()
	}
	return nil
}

func (P *Program) ContractFor(fn *ssa.Function) *Contract {
	if fn == nil {
		return nil
	}
	return P.contracts[fnKey(fn)]
}

// FindFunc locates the ssa.Function a contract talks about.
func (P *Program) FindFunc(c *Contract) *ssa.Function {
	sp := P.ssaPkgs[c.Pkg]
	if sp == nil {
		return nil
	}
	target := normTarget(c.Target)
	// closures: name$N
	base := target
	anon := ""
	if i := strings.Index(target, "$"); i >= 0 {
		base, anon = target[:i], target[i:]
	}
	var fn *ssa.Function
	if strings.HasPrefix(base, "(") {
		j := strings.Index(base, ")")
		tn := base[1:j]
		mn := base[j+2:]
		ptr := strings.HasPrefix(tn, "*")
		tn = strings.TrimPrefix(tn, "*")
		o := sp.Pkg.Scope().Lookup(tn)
		if o == nil {
			return nil
		}
		var t types.Type = o.Type()
		if ptr {
			t = types.NewPointer(t)
		}
		sel := P.prog.MethodSets.MethodSet(t).Lookup(sp.Pkg, mn)
		if sel == nil {
			return nil
		}
		fn = P.prog.MethodValue(sel)
	} else {
		fn = sp.Func(base)
	}
	if fn == nil {
		return nil
	}
	if anon != "" {
		want := fn.Name() + anon
		var find func(f *ssa.Function) *ssa.Function
		find = func(f *ssa.Function) *ssa.Function {
			for _, a := range f.AnonFuncs {
				if a.Name() == want {
					return a
				}
				if r := find(a); r != nil {
					return r
				}
			}
			return nil
		}
		return find(fn)
	}
	return fn
}

// IfaceMethodContract finds the contract of an interface method for an invoke on static type t.
func (P *Program) IfaceMethodContract(t types.Type, method string) *Contract {
	n, ok := t.(*types.Named)
	if !ok {
		return nil
	}
	if n.Obj().Pkg() == nil {
		return nil
	}
	ic := P.ifaces[n.Obj().Pkg().Path()+"."+n.Obj().Name()]
	if ic == nil {
		// embedded interfaces: look for a contract on an embedded named interface that declares the method
		if it, ok := n.Underlying().(*types.Interface); ok {
			for i := 0; i < it.NumEmbeddeds(); i++ {
				if c := P.IfaceMethodContract(it.EmbeddedType(i), method); c != nil {
					return c
				}
			}
		}
		return nil
	}
	if c := ic.Methods[method]; c != nil {
		return c
	}
	if it, ok := n.Underlying().(*types.Interface); ok {
		for i := 0; i < it.NumEmbeddeds(); i++ {
			if c := P.IfaceMethodContract(it.EmbeddedType(i), method); c != nil {
				return c
			}
		}
	}
	return nil
}

// reprFor returns the representation clause of model field `name` for static type t.
func (P *Program) reprFor(name string, t types.Type) *Repr {
	for _, r := range P.reprs[name] {
		tp := P.typesPkg(r.Pkg)
		if tp == nil {
			continue
		}
		tn := strings.TrimPrefix(r.Type, "*")
		o := tp.Scope().Lookup(tn)
		if o == nil {
			continue
		}
		var rt types.Type = o.Type()
		if strings.HasPrefix(r.Type, "*") {
			rt = types.NewPointer(rt)
		}
		if types.Identical(rt, t) {
			return r
		}
	}
	return nil
}
