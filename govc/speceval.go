package main

// Evaluation of contract expressions to SMT terms.

import (
	"fmt"
	"go/ast"
	"go/constant"
	"go/types"
	"strings"
)

func astIdentName(e ast.Expr) string {
	if id, ok := e.(*ast.Ident); ok {
		return id.Name
	}
	return ""
}

// SType describes spec-only (non-Go) types such as map[K]V spec arrays.
type SType struct {
	S    Sort
	GT   types.Type
	Key  *SType
	Elem *SType
}

type SpecEnv struct {
	ex      *Exec
	f       *Frame
	vars    map[string]Val
	stypes  map[string]*SType // spec types of vars that are spec arrays
	cur     *PState
	old     *PState
	pkg     *types.Package
	brkPre  string
	brkPost string
	atBlock interface{}
	expand  map[string]bool
	what    string
	rdepth  int // nesting depth of representation-clause expansion
	bound   []string
	inOld   bool // evaluating inside old(): parameter names denote their entry values
}

func (env *SpecEnv) child() *SpecEnv {
	n := *env
	n.vars = map[string]Val{}
	for k, v := range env.vars {
		n.vars[k] = v
	}
	n.stypes = map[string]*SType{}
	for k, v := range env.stypes {
		n.stypes[k] = v
	}
	return &n
}

type specErr struct{ msg string }

func (e *specErr) Error() string { return e.msg }

func (env *SpecEnv) fail(format string, args ...interface{}) {
	panic(&specErr{fmt.Sprintf("spec %s: ", env.what) + fmt.Sprintf(format, args...)})
}

// resolveType parses a type name used in binders / model declarations.
func (env *SpecEnv) resolveType(name string) *SType {
	reg := env.ex.reg
	name = strings.TrimSpace(name)
	switch name {
	case "int", "Int":
		return &SType{S: SInt}
	case "bool":
		return &SType{S: SBool, GT: types.Typ[types.Bool]}
	case "string", "Str":
		return &SType{S: SStr, GT: types.Typ[types.String]}
	case "bytes", "Bytes":
		return &SType{S: SBytes, GT: types.NewSlice(types.Typ[types.Uint8])}
	case "ref":
		return &SType{S: SInt}
	case "iface", "error":
		return &SType{S: SIface, GT: types.Universe.Lookup("error").Type()}
	case "int64":
		return &SType{S: SInt, GT: types.Typ[types.Int64]}
	}
	if strings.HasPrefix(name, "map[") {
		// Go map type (a reference); spec-level total maps are written array[K]V
		depth, j := 0, -1
		for i := 3; i < len(name); i++ {
			if name[i] == '[' {
				depth++
			}
			if name[i] == ']' {
				depth--
				if depth == 0 {
					j = i
					break
				}
			}
		}
		if j < 0 {
			env.fail("bad type %s", name)
		}
		k := env.resolveType(name[4:j])
		v := env.resolveType(name[j+1:])
		if k.GT == nil || v.GT == nil {
			env.fail("Go map over spec types in %s (use array[K]V)", name)
		}
		mt := types.NewMap(k.GT, v.GT)
		return &SType{S: SInt, GT: mt}
	}
	if strings.HasPrefix(name, "array[") {
		name = "map[" + name[6:]
		depth, j := 0, -1
		for i := 3; i < len(name); i++ {
			if name[i] == '[' {
				depth++
			}
			if name[i] == ']' {
				depth--
				if depth == 0 {
					j = i
					break
				}
			}
		}
		if j < 0 {
			env.fail("bad type %s", name)
		}
		k := env.resolveType(name[4:j])
		v := env.resolveType(name[j+1:])
		return &SType{S: ArrS(k.S, v.S), Key: k, Elem: v}
	}
	if strings.HasPrefix(name, "*") {
		in := env.resolveType(name[1:])
		if in.GT == nil {
			env.fail("pointer to spec type %s", name)
		}
		pt := types.NewPointer(in.GT)
		return &SType{S: SInt, GT: pt}
	}
	if strings.HasPrefix(name, "[]") {
		in := env.resolveType(name[2:])
		if in.GT == nil {
			env.fail("slice of spec type %s", name)
		}
		st := types.NewSlice(in.GT)
		return &SType{S: reg.SortOf(st), GT: st}
	}
	pkg := env.pkg
	tn := name
	var cands []*types.Package
	if i := strings.Index(name, "."); i >= 0 {
		pn := name[:i]
		tn = name[i+1:]
		if pkg != nil {
			for _, imp := range pkg.Imports() {
				if imp.Name() == pn {
					cands = append(cands, imp)
				}
			}
		}
		// all loaded packages with that name (import aliases are not visible here)
		for _, p := range env.ex.P.allTypesPkgs() {
			if p.Name() == pn {
				cands = append(cands, p)
			}
		}
		if len(cands) == 0 {
			env.fail("unknown package in type %s", name)
		}
	} else if pkg != nil {
		cands = []*types.Package{pkg}
	}
	for _, p := range cands {
		if o := p.Scope().Lookup(tn); o != nil {
			if t, ok := o.(*types.TypeName); ok {
				return &SType{S: reg.SortOf(t.Type()), GT: t.Type()}
			}
		}
	}
	if o := types.Universe.Lookup(tn); o != nil {
		if t, ok := o.(*types.TypeName); ok {
			return &SType{S: reg.SortOf(t.Type()), GT: t.Type()}
		}
	}
	env.fail("unknown type %s", name)
	return nil
}

func (env *SpecEnv) boolE(e *SExpr) string {
	v := env.Eval(e)
	if v.S != SBool {
		env.fail("expected bool, got %s in %s", v.S, e.String())
	}
	return v.T
}

func (env *SpecEnv) ref(v Val, e *SExpr) string {
	switch v.S {
	case SInt:
		return v.T
	case SIface:
		return app("ival", v.T)
	}
	env.fail("expected reference, got %s in %s", v.S, e.String())
	return ""
}

var qcount int

func (env *SpecEnv) Eval(e *SExpr) Val {
	ex := env.ex
	reg := ex.reg
	switch e.Op {
	case "num":
		return Val{T: e.Name, S: SInt}
	case "str":
		return Val{T: reg.StrLit(e.Name), S: SStr, GT: types.Typ[types.String]}
	case "var":
		return env.lookupVar(e.Name)
	case "cond":
		c := env.boolE(e.Args[0])
		a, b := env.Eval(e.Args[1]), env.Eval(e.Args[2])
		a, b = env.unifyNil(a, b)
		r := a
		r.T = ite(c, a.T, b.T)
		r.LV = nil
		return r
	case "unop":
		switch e.Name {
		case "!":
			return Val{T: not(env.boolE(e.Args[0])), S: SBool}
		case "-":
			v := env.Eval(e.Args[0])
			return Val{T: "(- " + v.T + ")", S: SInt}
		case "*":
			v := env.Eval(e.Args[0])
			if v.GT == nil {
				env.fail("deref of untyped value %s", e.String())
			}
			pt, ok := v.GT.Underlying().(*types.Pointer)
			if !ok {
				env.fail("deref of non-pointer %s", e.String())
			}
			hn, hs := ex.heapOfType(pt.Elem())
			return Val{T: sel(ex.H(env.cur, hn, hs), v.T), S: reg.SortOf(pt.Elem()), GT: pt.Elem()}
		}
	case "binop":
		return env.binop(e)
	case "field":
		return env.field(e)
	case "index":
		return env.index(e)
	case "update":
		a := env.Eval(e.Args[0])
		i := env.Eval(e.Args[1])
		v := env.Eval(e.Args[2])
		r := a
		r.T = sto(a.T, i.T, v.T)
		return r
	case "forall", "exists":
		n := env.child()
		var bs []string
		for _, b := range e.Bind {
			st := env.resolveType(b.Type)
			qcount++
			name := fmt.Sprintf("q%d_%s", qcount, b.Name)
			n.vars[b.Name] = Val{T: name, S: st.S, GT: st.GT}
			n.bound = append(append([]string{}, n.bound...), name)
			if st.Key != nil {
				n.stypes[b.Name] = st
			}
			bs = append(bs, fmt.Sprintf("(%s %s)", name, st.S))
		}
		body := n.boolE(e.Args[0])
		if len(e.Pats) > 0 {
			var ps []string
			for _, g := range e.Pats {
				var ts []string
				for _, pe := range g {
					ts = append(ts, n.Eval(pe).T)
				}
				ps = append(ps, ":pattern ("+strings.Join(ts, " ")+")")
			}
			body = "(! " + body + " " + strings.Join(ps, " ") + ")"
		}
		return Val{T: fmt.Sprintf("(%s (%s) %s)", e.Op, strings.Join(bs, " "), body), S: SBool}
	case "call":
		return env.call(e)
	}
	env.fail("cannot evaluate %s", e.String())
	return Val{}
}

func (env *SpecEnv) lookupVar(name string) Val {
	ex := env.ex
	if v, ok := env.vars[name]; ok {
		return v
	}
	switch name {
	case "true":
		return Val{T: "true", S: SBool}
	case "false":
		return Val{T: "false", S: SBool}
	case "nil":
		return Val{T: "nil", S: "Nil"}
	}
	// locals of the frame
	if env.f != nil {
		if env.inOld {
			// inside old(): a parameter (possibly copied into an address-taken cell that did not exist at entry) is its entry value
			for i, p := range env.f.fn.Params {
				if p.Name() == name && i < len(env.f.params) {
					return env.f.params[i]
				}
			}
		}
		if v, ok := env.f.resolveName(name, env.cur); ok {
			return v
		}
	}
	// package-level objects
	if env.pkg != nil {
		if o := env.pkg.Scope().Lookup(name); o != nil {
			switch c := o.(type) {
			case *types.Const:
				return ex.constFromTypes(c.Val(), c.Type())
			case *types.Var:
				g := ex.reg.Global("g_"+sanitize(shortPkg(env.pkg.Path())+"."+name), ex.reg.SortOf(c.Type()))
				return Val{T: g, S: ex.reg.SortOf(c.Type()), GT: c.Type()}
			}
		}
	}
	env.fail("unknown identifier %s", name)
	return Val{}
}

func (ex *Exec) constFromTypes(cv constant.Value, t types.Type) Val {
	s := ex.reg.SortOf(t)
	switch cv.Kind() {
	case constant.Bool:
		if constant.BoolVal(cv) {
			return Val{T: "true", S: SBool, GT: t}
		}
		return Val{T: "false", S: SBool, GT: t}
	case constant.String:
		return Val{T: ex.reg.StrLit(constant.StringVal(cv)), S: SStr, GT: t}
	case constant.Int:
		str := cv.ExactString()
		if strings.HasPrefix(str, "-") {
			str = "(- " + str[1:] + ")"
		}
		return Val{T: str, S: SInt, GT: t}
	}
	return Val{T: ex.reg.ZeroValue(t), S: s, GT: t}
}

// unifyNil gives the literal nil the sort of the other operand.
func (env *SpecEnv) unifyNil(a, b Val) (Val, Val) {
	zero := func(o Val) Val {
		switch {
		case o.S == SInt:
			return Val{T: "0", S: SInt, GT: o.GT}
		case o.S == SIface:
			return Val{T: "iface_nil", S: SIface, GT: o.GT}
		case o.S == SBytes:
			return Val{T: "bytes_nil", S: SBytes, GT: o.GT}
		case isSliceSort(o.S):
			return Val{T: fmt.Sprintf("(mk_%s 0 0 0)", o.S), S: o.S, GT: o.GT}
		}
		env.fail("nil compared with %s", o.S)
		return Val{}
	}
	if a.S == "Nil" && b.S != "Nil" {
		a = zero(b)
	}
	if b.S == "Nil" && a.S != "Nil" {
		b = zero(a)
	}
	return a, b
}

func (env *SpecEnv) binop(e *SExpr) Val {
	switch e.Name {
	case "&&":
		return Val{T: and(env.boolE(e.Args[0]), env.boolE(e.Args[1])), S: SBool}
	case "||":
		return Val{T: or(env.boolE(e.Args[0]), env.boolE(e.Args[1])), S: SBool}
	case "==>":
		return Val{T: implies(env.boolE(e.Args[0]), env.boolE(e.Args[1])), S: SBool}
	case "<==>":
		return Val{T: eq(env.boolE(e.Args[0]), env.boolE(e.Args[1])), S: SBool}
	}
	a, b := env.Eval(e.Args[0]), env.Eval(e.Args[1])
	switch e.Name {
	case "==", "!=":
		var t string
		if a.S == "Nil" || b.S == "Nil" {
			o := a
			if a.S == "Nil" {
				o = b
			}
			switch {
			case o.S == SInt:
				t = eq(o.T, "0")
			case o.S == SIface:
				t = eq(app("itag", o.T), "0")
			case o.S == SBytes:
				t = app("b_nil", o.T)
			case isSliceSort(o.S):
				t = eq(app("arr_"+string(o.S), o.T), "0")
			default:
				env.fail("nil compared with %s in %s", o.S, e.String())
			}
		} else {
			if a.S != b.S {
				env.fail("sort mismatch %s vs %s in %s", a.S, b.S, e.String())
			}
			t = eq(a.T, b.T)
		}
		if e.Name == "!=" {
			t = not(t)
		}
		return Val{T: t, S: SBool}
	case "<", "<=", ">", ">=":
		if a.S == SStr && b.S == SStr {
			switch e.Name {
			case "<":
				return Val{T: app("str_lt", a.T, b.T), S: SBool}
			case ">":
				return Val{T: app("str_lt", b.T, a.T), S: SBool}
			case "<=":
				return Val{T: not(app("str_lt", b.T, a.T)), S: SBool}
			default:
				return Val{T: not(app("str_lt", a.T, b.T)), S: SBool}
			}
		}
		if a.S != SInt || b.S != SInt {
			env.fail("comparison of %s and %s in %s", a.S, b.S, e.String())
		}
		return Val{T: app(e.Name, a.T, b.T), S: SBool}
	case "+":
		if a.S == SStr && b.S == SStr {
			if env.mentionsBound(a.T) || env.mentionsBound(b.T) {
				return Val{T: app("str_cat", a.T, b.T), S: SStr, GT: types.Typ[types.String]}
			}
			return Val{T: env.ex.strCat(a.T, b.T), S: SStr, GT: types.Typ[types.String]}
		}
		fallthrough
	case "-", "*":
		if a.S != SInt || b.S != SInt {
			env.fail("arithmetic on %s and %s in %s", a.S, b.S, e.String())
		}
		return Val{T: app(e.Name, a.T, b.T), S: SInt}
	case "/":
		return Val{T: app("div", a.T, b.T), S: SInt}
	case "%":
		return Val{T: app("mod", a.T, b.T), S: SInt}
	}
	env.fail("bad operator %s", e.Name)
	return Val{}
}

// fieldPath finds the (possibly promoted) field and returns the index path.
func fieldPath(t types.Type, name string) ([]int, types.Type, bool) {
	obj, idx, _ := types.LookupFieldOrMethod(t, true, nil, name)
	if obj == nil {
		// unexported field of another package: search manually
		st, ok := derefStruct(t)
		if !ok {
			return nil, nil, false
		}
		for i := 0; i < st.NumFields(); i++ {
			if st.Field(i).Name() == name {
				return []int{i}, st.Field(i).Type(), true
			}
		}
		return nil, nil, false
	}
	v, ok := obj.(*types.Var)
	if !ok || !v.IsField() {
		return nil, nil, false
	}
	return idx, v.Type(), true
}

func derefStruct(t types.Type) (*types.Struct, bool) {
	if p, ok := t.Underlying().(*types.Pointer); ok {
		t = p.Elem()
	}
	s, ok := t.Underlying().(*types.Struct)
	return s, ok
}

func (env *SpecEnv) field(e *SExpr) Val {
	ex := env.ex
	base := env.Eval(e.Args[0])
	if base.GT == nil {
		env.fail("field %s of untyped value in %s", e.Name, e.String())
	}
	path, _, ok := fieldPath(base.GT, e.Name)
	if !ok {
		env.fail("no field %s in %v", e.Name, base.GT)
	}
	cur := base
	ownRef, ownEntry := base.OwnRef, base.OwnEntry
	for _, idx := range path {
		// auto-deref pointers
		refTerm := ""
		var pointee types.Type
		if pt, ok := cur.GT.Underlying().(*types.Pointer); ok {
			hn, hs := ex.heapOfType(pt.Elem())
			refTerm, pointee = cur.T, pt.Elem()
			cur = Val{T: sel(ex.H(env.cur, hn, hs), cur.T), S: ex.reg.SortOf(pt.Elem()), GT: pt.Elem()}
			ownRef, ownEntry = refTerm, ""
			if ex.entry != nil {
				ownEntry = sel(ex.H(ex.entry, hn, hs), refTerm)
			}
		}
		si := ex.reg.StructInfoOf(cur.GT)
		if si == nil {
			env.fail("field access on non-struct %v", cur.GT)
		}
		fl := si.Fields[idx]
		cur = Val{T: app(fl.Acc, cur.T), S: fl.Sort, GT: fl.T}
		if ownEntry != "" {
			ownEntry = app(fl.Acc, ownEntry)
		}
		// references stored in a heap are allocated: <= the break of that state, and whatever the
		// function-entry heap holds at the same address is <= the entry break
		if env.cur != nil && env.cur.brk != "" && !env.mentionsBound(cur.T) {
			allocFact := func(term, brk, guard string) {
				switch fl.T.Underlying().(type) {
				case *types.Pointer, *types.Map:
					ex.vc.Assume(implies(guard, fmt.Sprintf("(<= %s %s)", term, brk)))
				case *types.Interface:
					ex.vc.Assume(implies(guard, fmt.Sprintf("(<= (ival %s) %s)", term, brk)))
				case *types.Slice:
					if !isByteSlice(fl.T) {
						ex.vc.Assume(implies(guard, fmt.Sprintf("(<= (arr_%s %s) %s)", fl.Sort, term, brk)))
					}
				}
			}
			// machine integers stored in allocated objects are within their type's range
			if refTerm != "" {
				if b, ok := fl.T.Underlying().(*types.Basic); ok && b.Info()&types.IsInteger != 0 {
					for _, inv := range ex.reg.TypeInv(cur.T, fl.T, 0) {
						ex.vc.Assume(implies(fmt.Sprintf("(<= %s %s)", refTerm, env.cur.brk), inv))
					}
				}
			}
			// contents of unallocated addresses are junk: the facts only hold for allocated objects
			if refTerm != "" {
				allocFact(cur.T, env.cur.brk, fmt.Sprintf("(<= %s %s)", refTerm, env.cur.brk))
				if ex.entry != nil {
					hn, hs := ex.heapOfType(pointee)
					allocFact(app(fl.Acc, sel(ex.H(ex.entry, hn, hs), refTerm)), ex.entry.brk, fmt.Sprintf("(<= %s %s)", refTerm, ex.entry.brk))
				}
			} else if ownRef != "" && !env.mentionsBound(ownRef) {
				// a pointer nested in a struct-valued field of heap object ownRef
				allocFact(cur.T, env.cur.brk, fmt.Sprintf("(<= %s %s)", ownRef, env.cur.brk))
				if ownEntry != "" {
					allocFact(ownEntry, ex.entry.brk, fmt.Sprintf("(<= %s %s)", ownRef, ex.entry.brk))
				}
			}
		}
	}
	if _, isStruct := cur.GT.Underlying().(*types.Struct); isStruct {
		cur.OwnRef, cur.OwnEntry = ownRef, ownEntry
	}
	return cur
}

func (env *SpecEnv) mentionsBound(t string) bool {
	for _, b := range env.bound {
		if strings.Contains(t, b) {
			return true
		}
	}
	return false
}

func (env *SpecEnv) index(e *SExpr) Val {
	ex := env.ex
	// m(x)[i] for a pointwise representation clause: instantiate the clause at i (no quantifier needed)
	if c := e.Args[0]; c.Op == "call" && len(c.Args) == 1 {
		if m := ex.P.models[c.Name]; m != nil {
			x := env.Eval(c.Args[0])
			if x.GT != nil {
				if rp := ex.P.reprFor(m.Name, x.GT); rp != nil && rp.Index != nil && env.expandOK(rp) {
					idx := env.Eval(e.Args[1])
					n := env.child()
					n.f = nil
					n.rdepth = env.rdepth + 1
					if p := ex.P.typesPkg(rp.Pkg); p != nil {
						n.pkg = p
					}
					n.vars = map[string]Val{rp.Self: x, rp.Index.Name: idx}
					n.stypes = map[string]*SType{}
					r := n.Eval(rp.Body)
					vt := env.resolveTypeIn(m.Type, m.Pkg)
					if vt.Elem != nil && r.GT == nil {
						r.GT = vt.Elem.GT
					}
					return r
				}
			}
		}
	}
	base := env.Eval(e.Args[0])
	idx := env.Eval(e.Args[1])
	if base.GT != nil {
		switch u := base.GT.Underlying().(type) {
		case *types.Map:
			_, _, vn, vs, _, _ := ex.mapHeaps(u)
			return Val{T: sel(sel(ex.H(env.cur, vn, vs), base.T), idx.T), S: ex.reg.SortOf(u.Elem()), GT: u.Elem()}
		case *types.Slice:
			if isByteSlice(base.GT) {
				return Val{T: app("str_at", app("b_str", base.T), idx.T), S: SInt}
			}
			s := ex.reg.SortOf(base.GT)
			es := ex.reg.SortOf(u.Elem())
			hn, hs := ex.sliceHeap(es)
			return Val{T: sel(sel(ex.H(env.cur, hn, hs), app("arr_"+string(s), base.T)), fmt.Sprintf("(+ (off_%s %s) %s)", s, base.T, idx.T)), S: es, GT: u.Elem()}
		case *types.Array:
			return Val{T: sel(base.T, idx.T), S: ex.reg.SortOf(u.Elem()), GT: u.Elem()}
		case *types.Basic:
			return Val{T: app("str_at", base.T, idx.T), S: SInt}
		}
	}
	// spec array
	if st := env.specTypeOf(e.Args[0], base); st != nil && st.Elem != nil {
		return Val{T: sel(base.T, idx.T), S: st.Elem.S, GT: st.Elem.GT}
	}
	// fall back on the sort text: (Array K V)
	if strings.HasPrefix(string(base.S), "(Array ") {
		_, v := splitArraySort(base.S)
		return Val{T: sel(base.T, idx.T), S: v}
	}
	env.fail("cannot index %s (sort %s)", e.Args[0].String(), base.S)
	return Val{}
}

func splitArraySort(s Sort) (Sort, Sort) {
	str := strings.TrimSuffix(strings.TrimPrefix(string(s), "(Array "), ")")
	// first component: balanced
	depth := 0
	for i := 0; i < len(str); i++ {
		switch str[i] {
		case '(':
			depth++
		case ')':
			depth--
		case ' ':
			if depth == 0 {
				return Sort(str[:i]), Sort(str[i+1:])
			}
		}
	}
	return Sort(str), ""
}

func (env *SpecEnv) specTypeOf(e *SExpr, v Val) *SType {
	if e.Op == "var" {
		if st, ok := env.stypes[e.Name]; ok {
			return st
		}
	}
	if e.Op == "call" {
		if e.Name == "old" && len(e.Args) == 1 {
			return env.specTypeOf(e.Args[0], v)
		}
		if m := env.ex.P.models[e.Name]; m != nil {
			return env.resolveTypeIn(m.Type, m.Pkg)
		}
		if g := env.ex.P.ghosts[e.Name]; g != nil {
			return env.resolveTypeIn(g.Ret, g.Pkg)
		}
	}
	if e.Op == "update" {
		return env.specTypeOf(e.Args[0], v)
	}
	if e.Op == "index" {
		if st := env.specTypeOf(e.Args[0], v); st != nil {
			return st.Elem
		}
	}
	return nil
}

func (env *SpecEnv) resolveTypeIn(name, pkgPath string) *SType {
	n := *env
	if p := env.ex.P.typesPkg(pkgPath); p != nil {
		n.pkg = p
	}
	return n.resolveType(name)
}

func (env *SpecEnv) call(e *SExpr) Val {
	ex := env.ex
	reg := ex.reg
	arg := func(i int) Val {
		if i >= len(e.Args) {
			env.fail("%s: missing argument %d", e.Name, i)
		}
		return env.Eval(e.Args[i])
	}
	switch e.Name {
	case "old":
		n := *env
		n.cur = env.old
		n.inOld = true
		return n.Eval(e.Args[0])
	case "len":
		v := arg(0)
		switch {
		case v.S == SStr:
			return Val{T: app("str_len", v.T), S: SInt}
		case v.S == SBytes:
			return Val{T: app("str_len", app("b_str", v.T)), S: SInt}
		case isSliceSort(v.S):
			return Val{T: app("len_"+string(v.S), v.T), S: SInt}
		}
		env.fail("len of %s", v.S)
	case "str":
		v := arg(0)
		if v.S == SBytes {
			return Val{T: app("b_str", v.T), S: SStr, GT: types.Typ[types.String]}
		}
		if v.S == SStr {
			return v
		}
		env.fail("str of %s", v.S)
	case "bytes":
		v := arg(0)
		return Val{T: fmt.Sprintf("(mk_bytes false %s)", v.T), S: SBytes, GT: types.NewSlice(types.Typ[types.Uint8])}
	case "by":
		// by(thm(args)): the instance of a proved theorem (a bool ghost macro declared `theorem thm`) is added to the
		// facts at this point; the expression itself is true. Sound because the theorem is proved for all arguments.
		if len(e.Args) != 1 || e.Args[0].Op != "call" {
			env.fail("by(...) takes one application of a theorem")
		}
		th := env.ex.P.theorems[e.Args[0].Name]
		if th == nil {
			env.fail("by(%s(...)): %s is not declared as a theorem", e.Args[0].Name, e.Args[0].Name)
		}
		inst := env.Eval(e.Args[0])
		if len(env.bound) > 0 {
			env.fail("by(...) under a quantifier is not supported")
		}
		env.ex.vc.Assume(inst.T)
		env.ex.vc.usedContracts["theorem "+shortPkg(th.Pkg)+"."+th.Name] = true
		return Val{T: "true", S: SBool}
	case "aimed":
		// aimed(x, s): every store reachable from x (a store, a master store's parts, a context struct) is aimed at state s
		v, s := arg(0), arg(1)
		if v.GT == nil {
			env.fail("aimed: first argument has no Go type")
		}
		c := env.ex.aimedDeep(v.T, v.GT, env.cur, s.T, nil, 0)
		if c == "" {
			c = "true"
		}
		return Val{T: c, S: SBool}
	case "isnil":
		v := arg(0)
		_, z := env.unifyNil(v, Val{S: "Nil"})
		_ = z
		switch {
		case v.S == SBytes:
			return Val{T: app("b_nil", v.T), S: SBool}
		case v.S == SIface:
			return Val{T: eq(app("itag", v.T), "0"), S: SBool}
		case v.S == SInt:
			return Val{T: eq(v.T, "0"), S: SBool}
		}
	case "big":
		v := arg(0)
		hn, hs := "H:Int", ArrS(SInt, SInt)
		return Val{T: sel(ex.H(env.cur, hn, hs), v.T), S: SInt}
	case "has":
		m, k := arg(0), arg(1)
		if m.GT != nil {
			if mt, ok := m.GT.Underlying().(*types.Map); ok {
				dn, ds, _, _, _, _ := ex.mapHeaps(mt)
				return Val{T: and(not(eq(m.T, "0")), sel(sel(ex.H(env.cur, dn, ds), m.T), k.T)), S: SBool}
			}
		}
		return Val{T: sel(m.T, k.T), S: SBool}
	case "mapdom", "mapval":
		m := arg(0)
		mt, ok := m.GT.Underlying().(*types.Map)
		if !ok {
			env.fail("%s of non-map", e.Name)
		}
		dn, ds, vn, vs, ks, vsrt := ex.mapHeaps(mt)
		if e.Name == "mapdom" {
			return Val{T: sel(ex.H(env.cur, dn, ds), m.T), S: ArrS(ks, SBool)}
		}
		return Val{T: sel(ex.H(env.cur, vn, vs), m.T), S: ArrS(ks, vsrt)}
	case "elems":
		v := arg(0)
		if !isSliceSort(v.S) {
			env.fail("elems of %s", v.S)
		}
		sl := v.GT.Underlying().(*types.Slice)
		es := reg.SortOf(sl.Elem())
		hn, hs := ex.sliceHeap(es)
		// typed as a Go array of the element type so that elems(s)[i].Field resolves
		return Val{T: sel(ex.H(env.cur, hn, hs), app("arr_"+string(v.S), v.T)), S: ArrS(SInt, es), GT: types.NewArray(sl.Elem(), 1<<40)}
	case "off":
		v := arg(0)
		return Val{T: app("off_"+string(v.S), v.T), S: SInt}
	case "arr":
		v := arg(0)
		return Val{T: app("arr_"+string(v.S), v.T), S: SInt}
	case "ite":
		c := env.boolE(e.Args[0])
		a, b := arg(1), arg(2)
		a, b = env.unifyNil(a, b)
		r := a
		r.T = ite(c, a.T, b.T)
		return r
	case "fresh":
		v := arg(0)
		r := env.ref(v, e.Args[0])
		if env.brkPre == "" {
			env.fail("fresh() outside ensures")
		}
		return Val{T: and(fmt.Sprintf("(< %s %s)", env.brkPre, r), fmt.Sprintf("(<= %s %s)", r, env.brkPost)), S: SBool}
	case "nilbytes":
		return Val{T: "bytes_nil", S: SBytes, GT: types.NewSlice(types.Typ[types.Uint8])}
	case "isnew":
		// isnew(x): the reference x (evaluated in the current state) was allocated after function entry
		v := arg(0)
		var r string
		switch {
		case isSliceSort(v.S):
			r = app("arr_"+string(v.S), v.T)
		default:
			r = env.ref(v, e.Args[0])
		}
		if ex.entry == nil {
			env.fail("isnew outside a function")
		}
		return Val{T: fmt.Sprintf("(> %s %s)", r, ex.entry.brk), S: SBool}
	case "allocated":
		v := arg(0)
		r := env.ref(v, e.Args[0])
		return Val{T: fmt.Sprintf("(<= %s %s)", r, env.cur.brk), S: SBool}
	case "dyntype":
		// dyntype(x, "pkg.T") / dyntype(x, "*T")
		v := arg(0)
		if e.Args[1].Op != "str" {
			env.fail("dyntype needs a type name string")
		}
		st := env.resolveType(e.Args[1].Name)
		return Val{T: eq(app("itag", v.T), fmt.Sprint(reg.TypeTag(st.GT))), S: SBool}
	case "unbox":
		// unbox(x, "T"): payload of interface x as a T
		v := arg(0)
		st := env.resolveType(e.Args[1].Name)
		if _, ok := st.GT.Underlying().(*types.Pointer); ok {
			return Val{T: app("ival", v.T), S: SInt, GT: st.GT}
		}
		hn, hs := ex.heapOfType(st.GT)
		return Val{T: sel(ex.H(env.cur, hn, hs), app("ival", v.T)), S: st.S, GT: st.GT}
	case "iface":
		// iface(p): the interface value holding pointer p (static type of p gives the tag)
		v := arg(0)
		return Val{T: fmt.Sprintf("(mk_iface %d %s)", reg.TypeTag(v.GT), v.T), S: SIface}
	case "ser", "serok":
		// ser(v, "T"): the bytes serialize.Serializer.Serialize produces for the value v of Go type T (a function of the value,
		// T-SER); serok(v, "T"): whether that serialisation succeeds (also a function of the value)
		v := arg(0)
		st := env.resolveType(e.Args[1].Name)
		if st.GT == nil {
			env.fail("%s: not a Go type: %s", e.Name, e.Args[1].Name)
		}
		if e.Name == "serok" {
			fn := reg.UFun("serok_"+sortTag(st.S)+"_"+hashName(types.TypeString(st.GT, nil)), []Sort{st.S}, SBool)
			return Val{T: app(fn, v.T), S: SBool}
		}
		fn := reg.UFun("ser_"+sortTag(st.S)+"_"+hashName(types.TypeString(st.GT, nil)), []Sort{st.S}, SBytes)
		return Val{T: app(fn, v.T), S: SBytes}
	case "unmok", "deserok":
		// success of the corresponding decode, a function of the bytes
		d := arg(0)
		st := env.resolveType(e.Args[1].Name)
		if st.GT == nil {
			env.fail("%s: not a Go type: %s", e.Name, e.Args[1].Name)
		}
		fn := reg.UFun(e.Name+"_"+sortTag(st.S)+"_"+hashName(types.TypeString(st.GT, nil)), []Sort{SBytes}, SBool)
		return Val{T: app(fn, d.T), S: SBool}
	case "unm", "deser":
		// unm(data, "T"): the value encoding/json.Unmarshal decodes from data into a T (T-JSON);
		// deser(data, "T"): likewise for serialize.Serializer.Deserialize (T-SER)
		d := arg(0)
		if e.Args[1].Op != "str" {
			env.fail("%s needs a type name string", e.Name)
		}
		st := env.resolveType(e.Args[1].Name)
		if st.GT == nil {
			env.fail("%s: not a Go type: %s", e.Name, e.Args[1].Name)
		}
		kind := e.Name
		fn := reg.UFun(kind+"_"+sortTag(st.S)+"_"+hashName(types.TypeString(st.GT, nil)), []Sort{SBytes}, st.S)
		return Val{T: app(fn, d.T), S: st.S, GT: st.GT}
	case "refof":
		v := arg(0)
		return Val{T: env.ref(v, e.Args[0]), S: SInt}
	case "cat":
		a, b := arg(0), arg(1)
		if env.mentionsBound(a.T) || env.mentionsBound(b.T) {
			return Val{T: app("str_cat", a.T, b.T), S: SStr, GT: types.Typ[types.String]}
		}
		return Val{T: ex.strCat(a.T, b.T), S: SStr, GT: types.Typ[types.String]}
	case "emptymap":
		// emptymap("K","V") constant-false / default array
		k := env.resolveType(e.Args[0].Name)
		return Val{T: ex.reg.ConstArray(k.S, SBool, "false"), S: ArrS(k.S, SBool)}
	case "wrap64":
		return Val{T: app("wrap_s64", arg(0).T), S: SInt}
	case "wrapu64":
		return Val{T: app("wrap_u64", arg(0).T), S: SInt}
	case "godiv":
		return Val{T: app("go_div", arg(0).T, arg(1).T), S: SInt}
	case "as":
		// as(x, "T"): re-type an Int/ref value as Go type T (for field access)
		v := arg(0)
		st := env.resolveType(e.Args[1].Name)
		v.GT = st.GT
		return v
	}
	if strings.HasPrefix(e.Name, "@") {
		// raw SMT function application
		var as []string
		var ss []Sort
		for i := range e.Args {
			v := arg(i)
			as = append(as, v.T)
			ss = append(ss, v.S)
		}
		rs := SInt
		switch {
		case e.Name == "@f64_lt" || e.Name == "@f64_le":
			rs = SBool
		case strings.HasPrefix(e.Name, "@f64_"):
			rs = SF64
		case e.Name == "@str_sub" || e.Name == "@str_cat":
			rs = SStr
		case strings.HasSuffix(e.Name, "_str"):
			rs = SStr
		case strings.HasSuffix(e.Name, "_bool"), strings.HasSuffix(e.Name, "_lt"):
			rs = SBool
		}
		// functions that are not part of the fixed prelude are declared on first use
		if !strings.Contains(preludeFixed, "-fun "+e.Name[1:]+" ") && !strings.Contains(preludeFixed, "(declare-fun "+e.Name[1:]+" ") {
			reg.UFun(e.Name[1:], ss, rs)
		}
		return Val{T: app(e.Name[1:], as...), S: rs}
	}
	// model field
	if m := ex.P.models[e.Name]; m != nil {
		return env.modelField(m, e)
	}
	// ghost function
	if g := ex.P.ghosts[e.Name]; g != nil {
		return env.ghostCall(g, e)
	}
	env.fail("unknown function %s", e.Name)
	return Val{}
}

func (env *SpecEnv) ghostCall(g *GhostFunc, e *SExpr) Val {
	ex := env.ex
	if len(e.Args) != len(g.Params) {
		env.fail("%s expects %d arguments", g.Name, len(g.Params))
	}
	genv := *env
	if p := ex.P.typesPkg(g.Pkg); p != nil {
		genv.pkg = p
	}
	rt := genv.resolveType(g.Ret)
	if g.Body == nil {
		var as []string
		var ss []Sort
		for i := range e.Args {
			v := env.Eval(e.Args[i])
			pt := genv.resolveType(g.Params[i].Type)
			if v.S == "Nil" {
				v, _ = env.unifyNil(v, Val{S: pt.S})
			}
			if v.S != pt.S && pt.S == SIface && v.GT != nil {
				v = Val{T: ex.ifaceOfValue(v), S: SIface}
			}
			if v.S != pt.S {
				env.fail("%s: argument %d has sort %s, want %s", g.Name, i, v.S, pt.S)
			}
			as = append(as, v.T)
			ss = append(ss, pt.S)
		}
		fn := ex.reg.UFun("gf_"+sanitize(g.Name), ss, rt.S)
		return Val{T: app(fn, as...), S: rt.S, GT: rt.GT}
	}
	n := genv.child()
	n.f = nil
	n.vars = map[string]Val{}
	n.stypes = map[string]*SType{}
	for i, p := range g.Params {
		v := env.Eval(e.Args[i])
		pt := genv.resolveType(p.Type)
		if v.S == "Nil" {
			v, _ = env.unifyNil(v, Val{S: pt.S})
		}
		if v.S != pt.S && pt.S == SIface && v.GT != nil {
			v = Val{T: ex.ifaceOfValue(v), S: SIface}
		}
		if v.GT == nil || pt.GT != nil {
			v.GT = pt.GT
		}
		if v.S != pt.S {
			env.fail("%s: argument %s has sort %s, want %s", g.Name, p.Name, v.S, pt.S)
		}
		n.vars[p.Name] = v
		if pt.Key != nil {
			n.stypes[p.Name] = pt
		}
	}
	r := n.Eval(g.Body)
	if r.GT == nil {
		r.GT = rt.GT
	}
	return r
}

// modelField evaluates name(x): representation clause if the static type of x
// has one and expansion is enabled for that type, else the ghost heap array.
func (env *SpecEnv) modelField(m *ModelField, e *SExpr) Val {
	ex := env.ex
	if len(e.Args) != 1 {
		env.fail("model field %s takes one argument", m.Name)
	}
	x := env.Eval(e.Args[0])
	vt := env.resolveTypeIn(m.Type, m.Pkg)
	if x.GT != nil {
		if rp := ex.P.reprFor(m.Name, x.GT); rp != nil && env.expandOK(rp) {
			return env.expandRepr(m, rp, x, vt)
		}
	}
	r := env.ref(x, e.Args[0])
	hn := "G:" + m.Name
	hs := ArrS(SInt, vt.S)
	res := Val{T: sel(ex.H(env.cur, hn, hs), r), S: vt.S, GT: vt.GT}
	// reference-valued model fields of allocated objects are allocated
	if vt.GT != nil && env.cur.brk != "" && !env.mentionsBound(r) {
		switch vt.GT.Underlying().(type) {
		case *types.Pointer, *types.Map:
			ex.vc.Assume(implies(fmt.Sprintf("(<= %s %s)", r, env.cur.brk), fmt.Sprintf("(<= %s %s)", res.T, env.cur.brk)))
			if ex.entry != nil {
				ex.vc.Assume(implies(fmt.Sprintf("(<= %s %s)", r, ex.entry.brk), fmt.Sprintf("(<= %s %s)", sel(ex.H(ex.entry, hn, hs), r), ex.entry.brk)))
			}
		}
	}
	if x.S == SIface && !m.NoDispatch {
		// dynamic dispatch on the type tag: objects whose dynamic type has an enabled
		// representation clause are read through it
		for _, rp := range ex.P.reprs[m.Name] {
			if !env.expandOK(rp) || ex.P.mentionsModel(rp.Body) {
				continue // wrappers (representation defined through another object's model) are only expanded statically
			}
			rt := env.resolveTypeIn(rp.Type, rp.Pkg)
			if rt == nil || rt.GT == nil {
				continue
			}
			if _, isPtr := rt.GT.Underlying().(*types.Pointer); !isPtr {
				continue
			}
			xv := Val{T: app("ival", x.T), S: SInt, GT: rt.GT}
			ev := env.expandRepr(m, rp, xv, vt)
			res.T = ite(eq(app("itag", x.T), fmt.Sprint(ex.reg.TypeTag(rt.GT))), ev.T, res.T)
		}
	}
	return res
}

func (env *SpecEnv) expandOK(rp *Repr) bool {
	if env.expand == nil || env.rdepth >= 6 {
		return false
	}
	return env.expand[rp.Type] || env.expand["*"]
}

func (env *SpecEnv) expandRepr(m *ModelField, rp *Repr, x Val, vt *SType) Val {
	ex := env.ex
	n := env.child()
	n.f = nil
	n.rdepth = env.rdepth + 1
	if p := ex.P.typesPkg(rp.Pkg); p != nil {
		n.pkg = p
	}
	n.vars = map[string]Val{rp.Self: x}
	if rp.Index == nil {
		r := n.Eval(rp.Body)
		if r.GT == nil {
			r.GT = vt.GT
		}
		return r
	}
	// pointwise definition: fresh array with a quantified defining axiom, cached by its defining term
	it := n.resolveType(rp.Index.Type)
	qn := "qi_" + sanitize(m.Name) + "_" + rp.Index.Name
	n.vars[rp.Index.Name] = Val{T: qn, S: it.S, GT: it.GT}
	n.bound = append(append([]string{}, n.bound...), qn)
	body := n.Eval(rp.Body)
	key := m.Name + "|" + body.T
	if sym, ok := ex.reprCache[key]; ok {
		return Val{T: sym, S: vt.S, GT: vt.GT}
	}
	sym := ex.vc.Fresh("repr_"+m.Name, vt.S)
	ex.vc.Assume(fmt.Sprintf("(forall ((%s %s)) (! (= (select %s %s) %s) :pattern ((select %s %s))))", qn, it.S, sym, qn, body.T, sym, qn))
	ex.reprCache[key] = sym
	return Val{T: sym, S: vt.S, GT: vt.GT}
}

func heapSig(st *PState) string {
	var b strings.Builder
	for _, k := range sortedHeapKeys(st.heap) {
		b.WriteString(k)
		b.WriteByte('=')
		b.WriteString(st.heap[k])
		b.WriteByte(';')
	}
	return b.String()
}

func sortedHeapKeys(m map[string]string) []string {
	mm := map[string]bool{}
	for k := range m {
		mm[k] = true
	}
	return sortedKeys(mm)
}

func (P *Program) mentionsModel(e *SExpr) bool {
	if e == nil {
		return false
	}
	if e.Op == "call" {
		if P.models[e.Name] != nil && len(P.reprs[e.Name]) > 0 {
			return true
		}
		if g := P.ghosts[e.Name]; g != nil && g.Body != nil && P.mentionsModel(g.Body) {
			return true
		}
	}
	for _, a := range e.Args {
		if P.mentionsModel(a) {
			return true
		}
	}
	return false
}
