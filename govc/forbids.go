package main

// `forbids` clauses: a frame condition decided on the static call graph. Every
// implementation of an interface method whose contract says `forbids P` must not
// be able to reach (through static calls, closures it creates, and interface
// invokes resolved by class-hierarchy analysis over the module's types) a
// function whose name matches P.

import (
	"fmt"
	"go/types"
	"sort"
	"strings"

	"golang.org/x/tools/go/ssa"
)

type callGraph struct {
	P     *Program
	memo  map[*ssa.Function]map[*ssa.Function]bool
	impls map[string][]*ssa.Function // iface method key -> implementations in the module
	named []*types.Named
}

func (P *Program) newCallGraph() *callGraph {
	cg := &callGraph{P: P, memo: map[*ssa.Function]map[*ssa.Function]bool{}, impls: map[string][]*ssa.Function{}}
	for _, tp := range P.allTP {
		if !strings.HasPrefix(tp.Path(), modPath) {
			continue
		}
		sc := tp.Scope()
		for _, n := range sc.Names() {
			if tn, ok := sc.Lookup(n).(*types.TypeName); ok {
				if nm, ok := tn.Type().(*types.Named); ok {
					cg.named = append(cg.named, nm)
				}
			}
		}
	}
	return cg
}

func (cg *callGraph) implementations(iface *types.Interface, method string, key string) []*ssa.Function {
	if v, ok := cg.impls[key]; ok {
		return v
	}
	var out []*ssa.Function
	for _, nm := range cg.named {
		if _, isI := nm.Underlying().(*types.Interface); isI {
			continue
		}
		for _, t := range []types.Type{nm, types.NewPointer(nm)} {
			if !types.Implements(t, iface) {
				continue
			}
			sel := cg.P.prog.MethodSets.MethodSet(t).Lookup(nm.Obj().Pkg(), method)
			if sel == nil {
				// exported method: package irrelevant
				for i := 0; i < cg.P.prog.MethodSets.MethodSet(t).Len(); i++ {
					s := cg.P.prog.MethodSets.MethodSet(t).At(i)
					if s.Obj().Name() == method {
						sel = s
					}
				}
			}
			if sel != nil {
				if fn := cg.P.prog.MethodValue(sel); fn != nil {
					out = append(out, fn)
				}
			}
		}
	}
	cg.impls[key] = out
	return out
}

// directCallees lists module functions fn may call directly.
func (cg *callGraph) directCallees(fn *ssa.Function) []*ssa.Function {
	var out []*ssa.Function
	add := func(f *ssa.Function) {
		if f != nil {
			out = append(out, f)
		}
	}
	for _, b := range fn.Blocks {
		for _, in := range b.Instrs {
			switch i := in.(type) {
			case *ssa.MakeClosure:
				add(i.Fn.(*ssa.Function))
			case ssa.CallInstruction:
				c := i.Common()
				if c.IsInvoke() {
					it, ok := c.Value.Type().Underlying().(*types.Interface)
					if !ok {
						continue
					}
					key := types.TypeString(c.Value.Type(), nil) + "." + c.Method.Name()
					for _, f := range cg.implementations(it, c.Method.Name(), key) {
						add(f)
					}
				} else if f := c.StaticCallee(); f != nil {
					add(f)
				}
			}
			// function values used as operands (method values, funcs passed as arguments)
			for _, op := range in.Operands(nil) {
				if op == nil || *op == nil {
					continue
				}
				if f, ok := (*op).(*ssa.Function); ok {
					add(f)
				}
			}
		}
	}
	return out
}

// reach returns a path from fn to a function whose qualified name matches one of pats, or nil.
func (cg *callGraph) reach(fn *ssa.Function, pats []string) []string {
	seen := map[*ssa.Function]bool{}
	var path []string
	var dfs func(f *ssa.Function) bool
	dfs = func(f *ssa.Function) bool {
		if seen[f] {
			return false
		}
		seen[f] = true
		name := strings.ReplaceAll(f.String(), modPath+"/", "")
		path = append(path, name)
		for _, p := range pats {
			if strings.Contains(name, p) {
				return true
			}
		}
		if f.Blocks != nil {
			for _, c := range cg.directCallees(f) {
				if dfs(c) {
					return true
				}
			}
		}
		path = path[:len(path)-1]
		return false
	}
	if dfs(fn) {
		return path
	}
	return nil
}

// ForbidsObligations evaluates all `forbids` clauses of interface contracts in scope.
func (P *Program) ForbidsObligations(hasTag func(string) bool) []*Obligation {
	var out []*Obligation
	cg := P.newCallGraph()
	var keys []string
	for k := range P.ifaces {
		keys = append(keys, k)
	}
	sort.Strings(keys)
	for _, k := range keys {
		ic := P.ifaces[k]
		tp := P.typesPkg(ic.Pkg)
		if tp == nil {
			continue
		}
		o := tp.Scope().Lookup(ic.Name)
		if o == nil {
			continue
		}
		it, ok := o.Type().Underlying().(*types.Interface)
		if !ok {
			continue
		}
		var mnames []string
		for m := range ic.Methods {
			mnames = append(mnames, m)
		}
		sort.Strings(mnames)
		for _, mn := range mnames {
			mc := ic.Methods[mn]
			for _, fb := range mc.Forbids {
				if !hasTag(fb.Tag) {
					continue
				}
				pats := strings.Fields(strings.ReplaceAll(fb.Src, ",", " "))
				impls := cg.implementations(it, mn, ic.Pkg+"."+ic.Name+"."+mn)
				sort.Slice(impls, func(i, j int) bool { return impls[i].String() < impls[j].String() })
				for _, fn := range impls {
					path := cg.reach(fn, pats)
					ob := &Obligation{
						Name: fmt.Sprintf("%s/%s/forbids#1", fb.Tag, strings.ReplaceAll(fn.String(), modPath+"/", "")), Tag: fb.Tag, Kind: "forbids", Func: fn.String(),
						Desc: fmt.Sprintf("call-graph frame: %s cannot reach any of [%s]", strings.ReplaceAll(fn.String(), modPath+"/", ""), strings.Join(pats, " ")),
					}
					if path == nil {
						ob.Result = &SolveResult{Status: "unsat", Backend: "callgraph"}
					} else {
						ob.Result = &SolveResult{Status: "sat", Backend: "callgraph", Output: "reachable: " + strings.Join(path, " -> ")}
					}
					out = append(out, ob)
				}
			}
		}
	}
	return out
}

// TheoremObligations: each `theorem name` is proved on its own, without any program context: the ghost macro applied
// to fresh constants of its parameter types must be valid.
func (P *Program) TheoremObligations(hasTag func(string) bool) *FuncResult {
	var names []string
	for n, th := range P.theorems {
		if hasTag(th.Tag) {
			names = append(names, n)
		}
	}
	if len(names) == 0 {
		return nil
	}
	sort.Strings(names)
	vc := NewVC(P.reg)
	fr := &FuncResult{VC: vc}
	for _, n := range names {
		th := P.theorems[n]
		g := P.ghosts[n]
		ob := &Obligation{Name: fmt.Sprintf("%s/%s.%s/theorem", th.Tag, shortPkg(th.Pkg), n), Tag: th.Tag, Kind: "theorem", Func: n, Desc: "theorem (valid for all arguments, proved without program context): " + n}
		if g == nil || g.Body == nil {
			ob.Result = &SolveResult{Status: "unknown", Backend: "engine", Output: "theorem " + n + " needs a ghost func with a body of that name"}
			vc.AddObligation(ob)
			fr.Obls = append(fr.Obls, ob)
			continue
		}
		func() {
			defer func() {
				if r := recover(); r != nil {
					ob.Result = &SolveResult{Status: "unknown", Backend: "engine", Output: fmt.Sprint(r)}
				}
			}()
			ex := &Exec{P: P, vc: vc, reg: P.reg, hsorts: heapSorts{}, expands: map[string]bool{}, reprCache: map[string]string{}}
			st := &PState{reach: "true", heap: map[string]string{}, epoch: 0, brk: vc.Declare("brk0", SInt)}
			ex.entry = st
			env := &SpecEnv{ex: ex, vars: map[string]Val{}, stypes: map[string]*SType{}, cur: st, old: st, pkg: P.typesPkg(th.Pkg), what: "theorem " + n}
			call := &SExpr{Op: "call", Name: n}
			for _, b := range g.Params {
				t := env.resolveTypeIn(b.Type, g.Pkg)
				c := vc.Fresh("thm_"+b.Name, t.S)
				env.vars["$thm_"+b.Name] = Val{T: c, S: t.S, GT: t.GT}
				call.Args = append(call.Args, &SExpr{Op: "var", Name: "$thm_" + b.Name})
			}
			ob.Goal = env.boolE(call)
		}()
		vc.AddObligation(ob)
		fr.Obls = append(fr.Obls, ob)
	}
	return fr
}
