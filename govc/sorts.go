package main

// Mapping of Go types to SMT sorts, datatype registry, type invariants.

import (
	"fmt"
	"regexp"
	"go/types"
	"hash/fnv"
	"sort"
	"strings"
)

// Sort is an SMT-LIB sort expression.
type Sort string

const (
	SInt   Sort = "Int"
	SBool  Sort = "Bool"
	SStr   Sort = "Str"
	SBytes Sort = "Bytes"
	SIface Sort = "Iface"
	SF64   Sort = "F64"
	SBigF  Sort = "BigF"
)

func ArrS(k, v Sort) Sort { return Sort(fmt.Sprintf("(Array %s %s)", k, v)) }

// Registry holds everything that is shared between all queries of one run:
// datatype declarations, string literals, type tags, uninterpreted functions.
type Registry struct {
	decls     []string          // in dependency order
	structs   map[string]*StructInfo
	byType    map[string]Sort   // types.Type string -> sort (cache)
	lits      map[string]string // string literal -> symbol
	litOrder  []string
	tags      map[string]int // dynamic type string -> tag
	tagOrder  []string
	ufuns     map[string]string // name -> declaration
	ufunOrder []string
	globals   map[string]Sort
	globOrder []string
	sliceS    map[Sort]bool
	axioms    []string
	symAxioms [][2]string // (symbol, axiom): only added to queries that mention the symbol
	f64lits   map[string]string
}

type StructInfo struct {
	Sort   Sort
	Ctor   string
	Fields []FieldInfo
	T      *types.Struct
}
type FieldInfo struct {
	Name string
	Acc  string
	Sort Sort
	T    types.Type
}

func NewRegistry() *Registry {
	return &Registry{structs: map[string]*StructInfo{}, byType: map[string]Sort{}, lits: map[string]string{},
		tags: map[string]int{}, ufuns: map[string]string{}, globals: map[string]Sort{}, sliceS: map[Sort]bool{}, f64lits: map[string]string{}}
}

func sanitize(s string) string {
	var b strings.Builder
	for _, r := range s {
		switch {
		case r >= 'a' && r <= 'z', r >= 'A' && r <= 'Z', r >= '0' && r <= '9', r == '_':
			b.WriteRune(r)
		case r == '.' || r == '/':
			b.WriteByte('_')
		case r == '*':
			b.WriteString("P")
		default:
			b.WriteString("_")
		}
	}
	return b.String()
}

func shortPkg(p string) string {
	p = strings.TrimPrefix(p, "github.com/Oneledger/protocol/")
	p = strings.TrimPrefix(p, "github.com/")
	return p
}

func hashName(s string) string {
	h := fnv.New32a()
	h.Write([]byte(s))
	return fmt.Sprintf("%08x", h.Sum32())
}

func isNamed(t types.Type, pkg, name string) bool {
	n, ok := types.Unalias(t).(*types.Named)
	if !ok {
		return false
	}
	o := n.Obj()
	return o.Name() == name && o.Pkg() != nil && o.Pkg().Path() == pkg
}

func isBigInt(t types.Type) bool {
	if isNamed(t, "math/big", "Int") {
		return true
	}
	if isNamed(t, "github.com/Oneledger/protocol/data/balance", "Amount") {
		return true
	}
	return false
}
func isBigFloat(t types.Type) bool { return isNamed(t, "math/big", "Float") }
func isTime(t types.Type) bool     { return isNamed(t, "time", "Time") }

// isByteSlice: slices whose element type is literally byte/uint8 are modelled as immutable byte strings.
// A slice of a NAMED byte-sized type (e.g. []Vote with `type Vote uint8`) is an ordinary slice: such
// slices are indexed and written in place.
func isByteSlice(t types.Type) bool {
	s, ok := t.Underlying().(*types.Slice)
	if !ok {
		return false
	}
	b, ok := types.Unalias(s.Elem()).(*types.Basic)
	return ok && (b.Kind() == types.Uint8)
}

// SortOf maps a Go type to its SMT sort, registering datatypes on demand.
func (r *Registry) SortOf(t types.Type) Sort {
	t = types.Unalias(t)
	key := types.TypeString(t, nil)
	if s, ok := r.byType[key]; ok {
		return s
	}
	s := r.sortOf(t)
	r.byType[key] = s
	return s
}

func (r *Registry) sortOf(t types.Type) Sort {
	if isBigInt(t) {
		return SInt
	}
	if isBigFloat(t) {
		return SBigF
	}
	if isTime(t) {
		return SInt
	}
	if n, ok := t.(*types.Named); ok {
		if p := n.Obj().Pkg(); p != nil && (p.Path() == "sync" || p.Path() == "sync/atomic") {
			return SInt
		}
	}
	switch u := t.Underlying().(type) {
	case *types.Basic:
		switch {
		case u.Info()&types.IsBoolean != 0:
			return SBool
		case u.Info()&types.IsInteger != 0:
			return SInt
		case u.Info()&types.IsFloat != 0:
			return SF64
		case u.Info()&types.IsString != 0:
			return SStr
		case u.Kind() == types.UnsafePointer, u.Kind() == types.UntypedNil:
			return SInt
		case u.Info()&types.IsComplex != 0:
			return SF64
		}
		return SInt
	case *types.Pointer, *types.Map, *types.Chan, *types.Signature:
		return SInt
	case *types.Interface:
		return SIface
	case *types.Slice:
		if isByteSlice(t) {
			return SBytes
		}
		es := r.SortOf(u.Elem())
		return r.sliceSort(es)
	case *types.Array:
		return ArrS(SInt, r.SortOf(u.Elem()))
	case *types.Struct:
		return r.structSort(t, u)
	case *types.Tuple:
		return "Tuple"
	}
	return SInt
}

func sortTag(s Sort) string { return sanitize(string(s)) }

// sliceSort: every non-byte slice with element sort E is the datatype
// Slice_E = (mk (arr Int) (off Int) (len Int)); contents live in heap A:E.
func (r *Registry) sliceSort(es Sort) Sort {
	name := Sort("Sl_" + sortTag(es))
	if !r.sliceS[name] {
		r.sliceS[name] = true
		r.decls = append(r.decls, fmt.Sprintf("(declare-datatypes ((%s 0)) (((mk_%s (arr_%s Int) (off_%s Int) (len_%s Int)))))", name, name, name, name, name))
	}
	return name
}

func (r *Registry) structName(t types.Type) string {
	t = types.Unalias(t)
	if n, ok := t.(*types.Named); ok {
		p := ""
		if n.Obj().Pkg() != nil {
			p = shortPkg(n.Obj().Pkg().Path()) + "."
		}
		return "S_" + sanitize(p+n.Obj().Name())
	}
	return "S_anon_" + hashName(types.TypeString(t, nil))
}

func (r *Registry) structSort(t types.Type, u *types.Struct) Sort {
	name := r.structName(t)
	if si, ok := r.structs[name]; ok {
		return si.Sort
	}
	si := &StructInfo{Sort: Sort(name), Ctor: "mk_" + name, T: u}
	r.structs[name] = si // placed before recursion; Go forbids by-value recursion
	for i := 0; i < u.NumFields(); i++ {
		f := u.Field(i)
		fs := r.SortOf(f.Type())
		si.Fields = append(si.Fields, FieldInfo{Name: f.Name(), Acc: fmt.Sprintf("%s_%s", name, sanitize(f.Name())), Sort: fs, T: f.Type()})
	}
	var b strings.Builder
	if len(si.Fields) == 0 {
		fmt.Fprintf(&b, "(declare-datatypes ((%s 0)) (((%s))))", name, si.Ctor)
	} else {
		fmt.Fprintf(&b, "(declare-datatypes ((%s 0)) (((%s", name, si.Ctor)
		for _, f := range si.Fields {
			fmt.Fprintf(&b, " (%s %s)", f.Acc, f.Sort)
		}
		b.WriteString("))))")
	}
	r.decls = append(r.decls, b.String())
	return si.Sort
}

func (r *Registry) StructInfoOf(t types.Type) *StructInfo {
	t = types.Unalias(t)
	u, ok := t.Underlying().(*types.Struct)
	if !ok {
		return nil
	}
	r.SortOf(t)
	_ = u
	return r.structs[r.structName(t)]
}

// StrLit returns the symbol of a string literal.
func (r *Registry) StrLit(s string) string {
	if s == "" {
		return "str_empty"
	}
	if sym, ok := r.lits[s]; ok {
		return sym
	}
	sym := fmt.Sprintf("lit_%d_%s", len(r.lits), sanitize(trunc(s, 16)))
	r.lits[s] = sym
	r.litOrder = append(r.litOrder, s)
	return sym
}

func trunc(s string, n int) string {
	if len(s) > n {
		return s[:n]
	}
	return s
}

func (r *Registry) TypeTag(t types.Type) int {
	k := types.TypeString(t, nil)
	if v, ok := r.tags[k]; ok {
		return v
	}
	v := len(r.tags) + 1
	r.tags[k] = v
	r.tagOrder = append(r.tagOrder, k)
	return v
}

// UFun declares an uninterpreted function once.
func (r *Registry) UFun(name string, args []Sort, ret Sort) string {
	if _, ok := r.ufuns[name]; !ok {
		as := make([]string, len(args))
		for i, a := range args {
			as[i] = string(a)
		}
		r.ufuns[name] = fmt.Sprintf("(declare-fun %s (%s) %s)", name, strings.Join(as, " "), ret)
		r.ufunOrder = append(r.ufunOrder, name)
	}
	return name
}

func (r *Registry) Global(name string, s Sort) string {
	if _, ok := r.globals[name]; !ok {
		r.globals[name] = s
		r.globOrder = append(r.globOrder, name)
	}
	return name
}

func (r *Registry) F64Lit(v string) string {
	if s, ok := r.f64lits[v]; ok {
		return s
	}
	s := fmt.Sprintf("f64lit_%d", len(r.f64lits))
	r.f64lits[v] = s
	r.Global(s, SF64)
	return s
}

const preludeFixed = `(set-option :produce-models true)
(set-logic ALL)
(declare-sort Str 0)
(declare-sort F64 0)
(declare-sort BigF 0)
(declare-fun str_empty () Str)
(declare-fun str_cat (Str Str) Str)
(declare-fun str_len (Str) Int)
(declare-fun str_at (Str Int) Int)
(declare-fun str_sub (Str Int Int) Str)
(declare-fun str_lt (Str Str) Bool)
(declare-datatypes ((Bytes 0)) (((mk_bytes (b_nil Bool) (b_str Str)))))
(declare-datatypes ((Iface 0)) (((mk_iface (itag Int) (ival Int)))))
(define-fun bytes_nil () Bytes (mk_bytes true str_empty))
(define-fun iface_nil () Iface (mk_iface 0 0))
(define-fun wrap_s64 ((x Int)) Int (ite (and (<= (- 9223372036854775808) x) (<= x 9223372036854775807)) x (- (mod (+ x 9223372036854775808) 18446744073709551616) 9223372036854775808)))
(define-fun wrap_u64 ((x Int)) Int (ite (and (<= 0 x) (<= x 18446744073709551615)) x (mod x 18446744073709551616)))
(define-fun wrap_s32 ((x Int)) Int (ite (and (<= (- 2147483648) x) (<= x 2147483647)) x (- (mod (+ x 2147483648) 4294967296) 2147483648)))
(define-fun wrap_u32 ((x Int)) Int (ite (and (<= 0 x) (<= x 4294967295)) x (mod x 4294967296)))
(define-fun wrap_s16 ((x Int)) Int (- (mod (+ x 32768) 65536) 32768))
(define-fun wrap_u16 ((x Int)) Int (mod x 65536))
(define-fun wrap_s8 ((x Int)) Int (- (mod (+ x 128) 256) 128))
(define-fun wrap_u8 ((x Int)) Int (mod x 256))
(define-fun go_div ((a Int) (b Int)) Int (ite (>= a 0) (div a b) (- (div (- a) b))))
(define-fun go_rem ((a Int) (b Int)) Int (- a (* b (ite (>= a 0) (div a b) (- (div (- a) b))))))
(define-fun big_cmp ((a Int) (b Int)) Int (ite (< a b) (- 1) (ite (= a b) 0 1)))
(define-fun big_sign ((a Int)) Int (ite (< a 0) (- 1) (ite (= a 0) 0 1)))
(declare-fun big_str (Int) Str)
(declare-fun int_str (Int) Str)
(assert (= (str_len str_empty) 0))
`

// Prelude renders all shared declarations.
func (r *Registry) Prelude() string {
	var b strings.Builder
	b.WriteString(preludeFixed)
	for _, d := range r.decls {
		b.WriteString(d)
		b.WriteByte('\n')
	}
	for _, l := range r.litOrder {
		fmt.Fprintf(&b, "(declare-fun %s () Str)\n(assert (= (str_len %s) %d))\n", r.lits[l], r.lits[l], len(l))
	}
	if len(r.litOrder) > 0 {
		b.WriteString("(assert (distinct str_empty")
		for _, l := range r.litOrder {
			b.WriteString(" " + r.lits[l])
		}
		b.WriteString("))\n")
	}
	for _, n := range r.globOrder {
		fmt.Fprintf(&b, "(declare-fun %s () %s)\n", n, r.globals[n])
	}
	for _, n := range r.ufunOrder {
		b.WriteString(r.ufuns[n])
		b.WriteByte('\n')
	}
	for _, a := range r.axioms {
		b.WriteString(a)
		b.WriteByte('\n')
	}
	return b.String()
}

func (r *Registry) TagTable() []string {
	out := []string{}
	for _, k := range r.tagOrder {
		out = append(out, fmt.Sprintf("%d=%s", r.tags[k], k))
	}
	sort.Strings(out)
	return out
}

// intRange returns min,max of an integer basic type (64-bit platform).
func intRange(b *types.Basic) (string, string, string) {
	switch b.Kind() {
	case types.Int, types.Int64:
		return "(- 9223372036854775808)", "9223372036854775807", "wrap_s64"
	case types.Uint, types.Uint64, types.Uintptr:
		return "0", "18446744073709551615", "wrap_u64"
	case types.Int32:
		return "(- 2147483648)", "2147483647", "wrap_s32"
	case types.Uint32:
		return "0", "4294967295", "wrap_u32"
	case types.Int16:
		return "(- 32768)", "32767", "wrap_s16"
	case types.Uint16:
		return "0", "65535", "wrap_u16"
	case types.Int8:
		return "(- 128)", "127", "wrap_s8"
	case types.Uint8:
		return "0", "255", "wrap_u8"
	}
	return "", "", ""
}

// TypeInv returns Bool terms that every value of Go type t satisfies
// (range of machine integers, nil-bytes are empty, lengths non-negative …).
func (r *Registry) TypeInv(term string, t types.Type, depth int) []string {
	if depth > 3 {
		return nil
	}
	if isBigInt(t) || isBigFloat(t) || isTime(t) {
		return nil
	}
	var out []string
	switch u := t.Underlying().(type) {
	case *types.Basic:
		if u.Info()&types.IsInteger != 0 {
			lo, hi, _ := intRange(u)
			if lo != "" {
				out = append(out, fmt.Sprintf("(and (<= %s %s) (<= %s %s))", lo, term, term, hi))
			}
		}
		if u.Info()&types.IsString != 0 {
			out = append(out, fmt.Sprintf("(and (>= (str_len %s) 0) (<= (str_len %s) 9223372036854775807))", term, term))
		}
	case *types.Pointer, *types.Map, *types.Chan, *types.Signature:
		out = append(out, fmt.Sprintf("(>= %s 0)", term))
	case *types.Interface:
		out = append(out, fmt.Sprintf("(and (>= (itag %s) 0) (>= (ival %s) 0) (=> (= (itag %s) 0) (= (ival %s) 0)))", term, term, term, term))
	case *types.Slice:
		if isByteSlice(t) {
			out = append(out, fmt.Sprintf("(and (>= (str_len (b_str %s)) 0) (<= (str_len (b_str %s)) 9223372036854775807) (=> (b_nil %s) (= (b_str %s) str_empty)))", term, term, term, term))
		} else {
			s := r.SortOf(t)
			out = append(out, fmt.Sprintf("(and (>= (arr_%s %s) 0) (>= (off_%s %s) 0) (>= (len_%s %s) 0) (<= (+ (off_%s %s) (len_%s %s)) 9223372036854775807) (=> (= (arr_%s %s) 0) (= (len_%s %s) 0)))", s, term, s, term, s, term, s, term, s, term, s, term, s, term))
		}
	case *types.Struct:
		si := r.StructInfoOf(t)
		if si == nil {
			break // sync.* and similar opaque structs
		}
		for _, f := range si.Fields {
			out = append(out, r.TypeInv(fmt.Sprintf("(%s %s)", f.Acc, term), f.T, depth+1)...)
		}
	}
	return out
}

// ZeroValue returns the SMT term of the zero value of t.
func (r *Registry) ZeroValue(t types.Type) string {
	if isBigInt(t) || isTime(t) {
		return "0"
	}
	if isBigFloat(t) {
		return r.Global("bigf_zero", SBigF)
	}
	switch u := t.Underlying().(type) {
	case *types.Basic:
		switch {
		case u.Info()&types.IsBoolean != 0:
			return "false"
		case u.Info()&types.IsString != 0:
			return "str_empty"
		case u.Info()&types.IsFloat != 0:
			return r.F64Lit("0")
		}
		return "0"
	case *types.Interface:
		return "(mk_iface 0 0)"
	case *types.Slice:
		if isByteSlice(t) {
			return "bytes_nil"
		}
		s := r.SortOf(t)
		return fmt.Sprintf("(mk_%s 0 0 0)", s)
	case *types.Array:
		return r.ConstArray(SInt, r.SortOf(u.Elem()), r.ZeroValue(u.Elem()))
	case *types.Struct:
		si := r.StructInfoOf(t)
		if si == nil {
			return "0"
		}
		if r.SortOf(t) == SInt {
			return "0"
		}
		if len(si.Fields) == 0 {
			return si.Ctor
		}
		parts := []string{}
		for _, f := range si.Fields {
			parts = append(parts, r.ZeroValue(f.T))
		}
		return fmt.Sprintf("(%s %s)", si.Ctor, strings.Join(parts, " "))
	}
	return "0"
}

// UpdateField rebuilds a struct term with one field replaced.
func (r *Registry) UpdateField(si *StructInfo, base string, idx int, val string) string {
	parts := make([]string, len(si.Fields))
	for i, f := range si.Fields {
		if i == idx {
			parts[i] = val
		} else {
			parts[i] = fmt.Sprintf("(%s %s)", f.Acc, base)
		}
	}
	return fmt.Sprintf("(%s %s)", si.Ctor, strings.Join(parts, " "))
}

var literalRe = regexp.MustCompile(`^(true|false|[0-9]+|\(- [0-9]+\)|\(mk_iface 0 0\))$`)

// ConstArray: an array that maps every index to zero. cvc5 only accepts `as const` with a value
// literal; for other element sorts a named array with a defining axiom is used.
func (r *Registry) ConstArray(idx, elem Sort, zero string) string {
	as := ArrS(idx, elem)
	if literalRe.MatchString(zero) {
		return fmt.Sprintf("((as const %s) %s)", as, zero)
	}
	name := "zarr_" + sortTag(as) + "_" + hashName(zero)
	if _, ok := r.globals[name]; !ok {
		r.Global(name, as)
		r.symAxioms = append(r.symAxioms, [2]string{name, fmt.Sprintf("(assert (forall ((zi %s)) (! (= (select %s zi) %s) :pattern ((select %s zi)))))", idx, name, zero, name)})
	}
	return name
}

// convertStruct rebuilds a value of struct type from as a value of struct type to (identical underlying types,
// different datatype sorts); other sorts are passed through.
func (r *Registry) convertStruct(term string, from, to types.Type) string {
	if r.SortOf(from) == r.SortOf(to) {
		return term
	}
	fs, ts := r.StructInfoOf(from), r.StructInfoOf(to)
	if fs == nil || ts == nil || len(fs.Fields) != len(ts.Fields) {
		return term
	}
	if len(ts.Fields) == 0 {
		return ts.Ctor
	}
	args := make([]string, len(ts.Fields))
	for k := range ts.Fields {
		args[k] = r.convertStruct("("+fs.Fields[k].Acc+" "+term+")", fs.Fields[k].T, ts.Fields[k].T)
	}
	return "(" + ts.Ctor + " " + strings.Join(args, " ") + ")"
}
