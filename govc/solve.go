package main

// Discharging obligations: z3 4.8.12, z3-new 5.1.0 and cvc5 are raced per obligation.

import (
	"crypto/md5"
	"bytes"
	"encoding/json"
	"context"
	"fmt"
	"os"
	"os/exec"
	"path/filepath"
	"strings"
	"sync"
	"time"
)

type SolveResult struct {
	Status  string // unsat | sat | unknown | timeout | error
	Backend string
	Ms      int64
	Output  string
	Tried   []string
}

type solverSpec struct {
	name string
	argv func(file string, timeoutS int) []string
}

var solvers = []solverSpec{
	{"z3-5.1.0", func(f string, t int) []string { return []string{"z3-new", fmt.Sprintf("-T:%d", t), f} }},
	{"z3-4.8.12", func(f string, t int) []string { return []string{"/usr/bin/z3", fmt.Sprintf("-T:%d", t), f} }},
	{"cvc5-1.0.3", func(f string, t int) []string {
		return []string{"cvc5", "--incremental", "--produce-models", fmt.Sprintf("--tlimit=%d", t*1000), f}
	}},
}

func runOne(ctx context.Context, sp solverSpec, file string, timeoutS int) (string, string) {
	argv := sp.argv(file, timeoutS)
	cctx, cancel := context.WithTimeout(ctx, time.Duration(timeoutS+2)*time.Second)
	defer cancel()
	cmd := exec.CommandContext(cctx, argv[0], argv[1:]...)
	var out bytes.Buffer
	cmd.Stdout = &out
	cmd.Stderr = &out
	_ = cmd.Run()
	o := out.String()
	first := strings.TrimSpace(strings.SplitN(o, "\n", 2)[0])
	switch first {
	case "unsat", "sat", "unknown":
		return first, o
	case "timeout":
		return "timeout", o
	}
	if cctx.Err() != nil {
		return "timeout", o
	}
	if strings.Contains(o, "unsat") && !strings.Contains(o, "error") {
		return "unsat", o
	}
	return "error", o
}

// Solve races the back ends on one query text.
func SolveFile(file string, timeoutS int) *SolveResult {
	start := time.Now()
	res := &SolveResult{}
	// race all three back ends; the first definitive answer wins
	ctx, cancel := context.WithCancel(context.Background())
	defer cancel()
	type r struct {
		name, s, o string
	}
	ch := make(chan r, len(solvers))
	for _, sp := range solvers {
		sp := sp
		go func() {
			s, o := runOne(ctx, sp, file, timeoutS)
			ch <- r{sp.name, s, o}
		}()
	}
	best := r{s: "unknown"}
	for range solvers {
		x := <-ch
		res.Tried = append(res.Tried, x.name+":"+x.s)
		if x.s == "unsat" || x.s == "sat" {
			best = x
			cancel()
			break
		}
		if x.s == "timeout" && best.s != "timeout" {
			best = x
		}
		if best.name == "" {
			best = x
		}
	}
	res.Status, res.Backend, res.Output, res.Ms = best.s, best.name, best.o, time.Since(start).Milliseconds()
	if res.Status == "error" {
		res.Status = "unknown"
	}
	return res
}

// SolveAll discharges obligations in parallel. The queries are written to a
// scratch directory and solved by a re-exec'd child with a small heap: forking
// solver processes from the parent (which holds the whole type-checked
// program) costs ~0.5 s per fork.
func SolveAll(prelude func(*FuncResult) string, frs []*FuncResult, pick func(*Obligation) bool, timeoutS int, workers int) {
	dir, err := os.MkdirTemp("", "govc-q-")
	if err != nil {
		panic(err)
	}
	defer os.RemoveAll(dir)
	type job struct {
		ID      int    `json:"id"`
		File    string `json:"file"`
		Timeout int    `json:"timeout"`
	}
	var jobs []job
	byID := map[int]*Obligation{}
	id := 0
	for _, fr := range frs {
		for _, o := range fr.Obls {
			if !pick(o) || o.Result != nil {
				continue
			}
			id++
			q := fr.VC.Query(prelude(fr), o)
			if hf := os.Getenv("GOVC_QHASH"); hf != "" {
				// determinism self-test: one line per query (name, md5 of its text)
				if fh, err := os.OpenFile(hf, os.O_APPEND|os.O_CREATE|os.O_WRONLY, 0o644); err == nil {
					fmt.Fprintf(fh, "%s %x\n", o.Name, md5.Sum([]byte(q)))
					fh.Close()
				}
			}
			if dn := os.Getenv("GOVC_QDUMP"); dn != "" && strings.Contains(o.Name, dn) {
				os.WriteFile(os.Getenv("GOVC_QDUMP_FILE"), []byte(q), 0o644)
			}
			if len(q) > 4<<20 {
				o.Result = &SolveResult{Status: "unknown", Output: "query exceeds the 4 MB size cap"}
				continue
			}
			file := filepath.Join(dir, fmt.Sprintf("q%d.smt2", id))
			if err := os.WriteFile(file, []byte(q), 0o644); err != nil {
				panic(err)
			}
			tmo := timeoutS
			if o.IsCover || o.Canary {
				tmo = 2 // vacuity guards: only an `unsat` answer matters
			} else if o.ShortTimeout > 0 {
				tmo = o.ShortTimeout
			}
			jobs = append(jobs, job{id, file, tmo})
			byID[id] = o
		}
	}
	if len(jobs) == 0 {
		return
	}
	mf := filepath.Join(dir, "jobs.json")
	data, _ := json.Marshal(jobs)
	os.WriteFile(mf, data, 0o644)
	self, _ := os.Executable()
	cmd := exec.Command(self, "solve-batch", mf, fmt.Sprint(workers))
	cmd.Stderr = os.Stderr
	out, err := cmd.Output()
	if err != nil {
		panic(fmt.Sprintf("solve-batch failed: %v", err))
	}
	var results map[string]*SolveResult
	if err := json.Unmarshal(out, &results); err != nil {
		panic(fmt.Sprintf("solve-batch output: %v", err))
	}
	for k, r := range results {
		var n int
		fmt.Sscan(k, &n)
		if o := byID[n]; o != nil {
			o.Result = r
		}
	}
}

// solveBatch is the child side of SolveAll.
func solveBatch(manifest string, workers int) {
	type job struct {
		ID      int    `json:"id"`
		File    string `json:"file"`
		Timeout int    `json:"timeout"`
	}
	data, err := os.ReadFile(manifest)
	if err != nil {
		panic(err)
	}
	var jobs []job
	json.Unmarshal(data, &jobs)
	results := map[string]*SolveResult{}
	var mu sync.Mutex
	var wg sync.WaitGroup
	ch := make(chan job)
	for w := 0; w < workers; w++ {
		wg.Add(1)
		go func() {
			defer wg.Done()
			for j := range ch {
				r := SolveFile(j.File, j.Timeout)
				mu.Lock()
				results[fmt.Sprint(j.ID)] = r
				mu.Unlock()
			}
		}()
	}
	for _, j := range jobs {
		ch <- j
	}
	close(ch)
	wg.Wait()
	out, _ := json.Marshal(results)
	os.Stdout.Write(out)
}
