package main

// VC: the ordered list of declarations and assumptions produced while
// symbolically executing one function, plus the obligations cut from it.

import (
	"fmt"
	"regexp"
	"go/types"
	"sort"
	"strings"
)

type Val struct {
	T     string // SMT term
	S     Sort
	GT    types.Type
	Tuple []Val
	LV    *LValue
	Clos  *Closure
	// spec evaluation only: the value is (part of) the content of heap object OwnRef; OwnEntry is the same part of
	// the function-entry content of that object (allocation facts for pointers nested in struct-valued fields)
	OwnRef, OwnEntry string
}

type PathElem struct {
	Field int    // >=0: struct field index
	Index string // != "": array index term
	T     types.Type // type of the container at this step (struct or array)
}

// LValue is a statically tracked address: root object + path into it.
type LValue struct {
	Heap  string     // heap name of the root ("H:<sort>", "A:<sort>")
	HSort Sort       // element sort of that heap
	Base  string     // index term into the heap
	RootT types.Type // type of the root object
	Path  []PathElem
	Glob  string // non-empty: address of a package-level variable
	GlobT types.Type
}

type Closure struct {
	Fn       interface{} // *ssa.Function
	Bindings []Val
}

type Obligation struct {
	Name   string
	Tag    string
	Kind   string
	Func   string
	Goal   string
	Prefix int
	Pos    string
	Desc   string
	Watch  [][2]string // (label, term) pairs evaluated in the model of a refutation
	IsCover bool       // cover query: expected SAT
	Canary  bool       // must be refuted
	ShortTimeout int   // > 0: solver timeout for obligations whose verdict cannot change the outcome of the run
	Result *SolveResult
}

type VC struct {
	reg      *Registry
	lines    []string
	n        int
	obls     []*Obligation
	declared map[string]bool
	notes    []string
	unsupported []string
	unverifiedCallees map[string]bool
	trusted  map[string]bool
	inlined  map[string]bool
	usedContracts map[string]bool
	oblCount map[string]int
	condAxioms []condAxiom
	opaqueArith bool
	droppedInvs []string
}

type condAxiom struct {
	syms []string
	text string
	note string
}

var gfRe = regexp.MustCompile(`gf_[A-Za-z0-9_]+`)
var strFnRe = regexp.MustCompile(`str_(cat|len|at|sub|lt)|big_str|int_str`)

// AddCondAxiomSyms registers an axiom that is added to a query when the query mentions one of syms (always, if syms is empty).
func (vc *VC) AddCondAxiomSyms(term string, syms []string, note string) {
	vc.condAxioms = append(vc.condAxioms, condAxiom{syms: syms, text: "(assert " + term + ")", note: note})
}

// AddCondAxiom registers an axiom that is added to a query only when the query mentions one of its spec functions.
func (vc *VC) AddCondAxiom(term, note string) {
	syms := gfRe.FindAllString(term, -1)
	if len(syms) == 0 {
		syms = strFnRe.FindAllString(term, -1)
	}
	vc.condAxioms = append(vc.condAxioms, condAxiom{syms: syms, text: "(assert " + term + ")", note: note})
}

func NewVC(reg *Registry) *VC {
	return &VC{reg: reg, declared: map[string]bool{}, unverifiedCallees: map[string]bool{}, trusted: map[string]bool{}, inlined: map[string]bool{}, usedContracts: map[string]bool{}, oblCount: map[string]int{}}
}

func (vc *VC) mark() (int, int) { return len(vc.lines), len(vc.obls) }
func (vc *VC) rollback(l, o int) {
	for _, ln := range vc.lines[l:] {
		if strings.HasPrefix(ln, "(declare-fun ") {
			name := strings.Fields(ln[len("(declare-fun "):])[0]
			delete(vc.declared, name)
		}
	}
	vc.lines = vc.lines[:l]
	vc.obls = vc.obls[:o]
}

func (vc *VC) Declare(name string, s Sort) string {
	if !vc.declared[name] {
		vc.declared[name] = true
		vc.lines = append(vc.lines, fmt.Sprintf("(declare-fun %s () %s)", name, s))
	}
	return name
}

func (vc *VC) Fresh(prefix string, s Sort) string {
	vc.n++
	name := fmt.Sprintf("%s!%d", sanitize(prefix), vc.n)
	return vc.Declare(name, s)
}

func (vc *VC) Assume(t string) {
	if t == "true" || t == "" {
		return
	}
	vc.lines = append(vc.lines, "(assert "+t+")")
}

func (vc *VC) AssumeIf(reach, t string) {
	if t == "true" || t == "" {
		return
	}
	if reach == "true" {
		vc.Assume(t)
		return
	}
	vc.lines = append(vc.lines, fmt.Sprintf("(assert (=> %s %s))", reach, t))
}

// Define introduces a named constant equal to term.
func (vc *VC) Define(prefix string, s Sort, term string) string {
	if isAtom(term) {
		return term
	}
	n := vc.Fresh(prefix, s)
	vc.lines = append(vc.lines, fmt.Sprintf("(assert (= %s %s))", n, term))
	return n
}

func isAtom(t string) bool {
	return !strings.ContainsAny(t, " ()")
}

func (vc *VC) AddObligation(o *Obligation) {
	o.Prefix = len(vc.lines)
	key := o.Name
	vc.oblCount[key]++
	o.Name = fmt.Sprintf("%s#%d", key, vc.oblCount[key])
	vc.obls = append(vc.obls, o)
}

func (vc *VC) Note(s string) { vc.notes = append(vc.notes, s) }
func (vc *VC) Unsupported(s string) {
	for _, u := range vc.unsupported {
		if u == s {
			return
		}
	}
	vc.unsupported = append(vc.unsupported, s)
}

// Query renders the SMT-LIB text for one obligation.
func (vc *VC) Query(prelude string, o *Obligation) string {
	var b strings.Builder
	b.WriteString(prelude)
	var body strings.Builder
	for _, l := range vc.lines[:o.Prefix] {
		body.WriteString(l)
		body.WriteByte('\n')
	}
	bs := body.String()
	for _, sa := range vc.reg.symAxioms {
		if strings.Contains(bs, sa[0]) || strings.Contains(o.Goal, sa[0]) {
			b.WriteString(sa[1])
			b.WriteByte('\n')
		}
	}
	b.WriteString(bs) // declarations first: conditional axioms may mention lazily declared heap symbols
	for _, ca := range vc.condAxioms {
		use := len(ca.syms) == 0
		for _, sy := range ca.syms {
			if strings.Contains(bs, sy) || strings.Contains(o.Goal, sy) {
				use = true
				break
			}
		}
		if use {
			b.WriteString(ca.text)
			b.WriteByte('\n')
			vc.trusted[ca.note] = true
		}
	}

	if o.IsCover {
		fmt.Fprintf(&b, "(assert %s)\n(check-sat)\n", o.Goal)
	} else {
		fmt.Fprintf(&b, "(assert (not %s))\n(check-sat)\n", o.Goal)
	}
	if len(o.Watch) > 0 {
		b.WriteString("(get-value (")
		for _, w := range o.Watch {
			b.WriteString(w[1])
			b.WriteByte(' ')
		}
		b.WriteString("))\n")
	}
	if vc.opaqueArith {
		return opaqueArithRewrite(b.String())
	}
	return b.String()
}

// opaqueArithRewrite replaces every binary (* a b), (div a b), (mod a b) whose operands are both non-literal by an
// application of an uninterpreted function with sign/range facts only. This only loses facts (each fact stated holds
// of the real operator), so proofs stay sound; it keeps nonlinear arithmetic out of queries whose proof does not need it.
func opaqueArithRewrite(q string) string {
	var out strings.Builder
	used := map[string]bool{}
	i := 0
	n := len(q)
	isLit := func(t string) bool {
		t = strings.TrimSpace(t)
		if strings.HasPrefix(t, "(- ") && strings.HasSuffix(t, ")") {
			t = strings.TrimSpace(t[3 : len(t)-1])
		}
		if t == "" {
			return false
		}
		for _, c := range t {
			if c < '0' || c > '9' {
				return false
			}
		}
		return true
	}
	// split the arguments of the application starting at position p (just after the operator), return args and end index (position of ')')
	args := func(p int) ([]string, int) {
		var as []string
		for p < n {
			for p < n && (q[p] == ' ' || q[p] == '\n' || q[p] == '\t') {
				p++
			}
			if p >= n {
				break
			}
			if q[p] == ')' {
				return as, p
			}
			s := p
			if q[p] == '(' {
				d := 0
				for p < n {
					if q[p] == '(' {
						d++
					} else if q[p] == ')' {
						d--
						if d == 0 {
							p++
							break
						}
					} else if q[p] == '|' {
						p++
						for p < n && q[p] != '|' {
							p++
						}
					}
					p++
				}
			} else if q[p] == '|' {
				p++
				for p < n && q[p] != '|' {
					p++
				}
				p++
			} else {
				for p < n && q[p] != ' ' && q[p] != ')' && q[p] != '\n' && q[p] != '(' {
					p++
				}
			}
			as = append(as, q[s:p])
		}
		return as, p
	}
	ops := map[string]string{"*": "nl_mul", "div": "nl_div", "mod": "nl_mod"}
	for i < n {
		c := q[i]
		if c == '(' {
			j := i + 1
			for j < n && q[j] != ' ' && q[j] != ')' && q[j] != '(' {
				j++
			}
			if nm, ok := ops[q[i+1:j]]; ok && j < n && q[j] == ' ' {
				as, _ := args(j)
				if len(as) == 2 && !isLit(as[0]) && !isLit(as[1]) {
					used[nm] = true
					out.WriteString("(" + nm)
					i = j
					continue
				}
			}
		}
		out.WriteByte(c)
		i++
	}
	if len(used) == 0 {
		return q
	}
	var decl strings.Builder
	if used["nl_mul"] {
		decl.WriteString("(declare-fun nl_mul (Int Int) Int)\n(assert (forall ((a Int) (b Int)) (! (and (=> (and (>= a 0) (>= b 0)) (>= (nl_mul a b) 0)) (=> (or (= a 0) (= b 0)) (= (nl_mul a b) 0))) :pattern ((nl_mul a b)))))\n")
	}
	if used["nl_div"] {
		decl.WriteString("(declare-fun nl_div (Int Int) Int)\n(assert (forall ((a Int) (b Int)) (! (=> (and (>= a 0) (> b 0)) (and (<= 0 (nl_div a b)) (<= (nl_div a b) a))) :pattern ((nl_div a b)))))\n")
	}
	if used["nl_mod"] {
		decl.WriteString("(declare-fun nl_mod (Int Int) Int)\n(assert (forall ((a Int) (b Int)) (! (=> (> b 0) (and (<= 0 (nl_mod a b)) (< (nl_mod a b) b))) :pattern ((nl_mod a b)))))\n")
	}
	res := out.String()
	// declarations go after the leading option/logic lines
	pos := 0
	for {
		nl := strings.IndexByte(res[pos:], '\n')
		if nl < 0 {
			break
		}
		line := res[pos : pos+nl]
		if strings.HasPrefix(line, "(set-") || strings.HasPrefix(line, ";") || strings.TrimSpace(line) == "" {
			pos += nl + 1
			continue
		}
		break
	}
	return res[:pos] + decl.String() + res[pos:]
}

func and(ts ...string) string {
	var out []string
	for _, t := range ts {
		if t == "true" || t == "" {
			continue
		}
		if t == "false" {
			return "false"
		}
		out = append(out, t)
	}
	switch len(out) {
	case 0:
		return "true"
	case 1:
		return out[0]
	}
	return "(and " + strings.Join(out, " ") + ")"
}

func or(ts ...string) string {
	var out []string
	for _, t := range ts {
		if t == "false" || t == "" {
			continue
		}
		if t == "true" {
			return "true"
		}
		out = append(out, t)
	}
	switch len(out) {
	case 0:
		return "false"
	case 1:
		return out[0]
	}
	return "(or " + strings.Join(out, " ") + ")"
}

func not(t string) string {
	switch t {
	case "true":
		return "false"
	case "false":
		return "true"
	}
	if strings.HasPrefix(t, "(not ") && strings.HasSuffix(t, ")") && balanced(t[5:len(t)-1]) {
		return t[5 : len(t)-1]
	}
	return "(not " + t + ")"
}

func balanced(s string) bool {
	d := 0
	for _, c := range s {
		if c == '(' {
			d++
		}
		if c == ')' {
			d--
			if d < 0 {
				return false
			}
		}
	}
	return d == 0 && (isAtom(s) || (strings.HasPrefix(s, "(")))
}

func implies(a, b string) string {
	if a == "true" {
		return b
	}
	if b == "true" || a == "false" {
		return "true"
	}
	return "(=> " + a + " " + b + ")"
}

func ite(c, a, b string) string {
	if c == "true" {
		return a
	}
	if c == "false" {
		return b
	}
	if a == b {
		return a
	}
	return "(ite " + c + " " + a + " " + b + ")"
}

func eq(a, b string) string {
	if a == b {
		return "true"
	}
	return "(= " + a + " " + b + ")"
}

func sel(a, i string) string      { return "(select " + a + " " + i + ")" }
func sto(a, i, v string) string   { return "(store " + a + " " + i + " " + v + ")" }
func app(f string, args ...string) string {
	if len(args) == 0 {
		return f
	}
	return "(" + f + " " + strings.Join(args, " ") + ")"
}

func num(n int64) string {
	if n < 0 {
		return fmt.Sprintf("(- %d)", -n)
	}
	return fmt.Sprintf("%d", n)
}

func sortedKeys(m map[string]bool) []string {
	out := make([]string, 0, len(m))
	for k := range m {
		out = append(out, k)
	}
	sort.Strings(out)
	return out
}
