package main

// Aim mode (property C07): type-state verification of the consensus hooks.
//
// The shared store objects carry a mutable pointer to the storage.State they read and write ("aim"); every CheckTx
// re-aims them at the check state. A function with an `aimcheck <expr>` clause is verified, from an entry state in
// which every aim pointer is arbitrary, to call store methods only on stores aimed at <expr> (the deliver state).
//
// In this mode callees are abstracted by what they can do to aim pointers:
//   * MOD(f): the set of aim fields (struct type, field) f may write, transitively over the module call graph
//     (class-hierarchy analysis for interface calls; writes into objects allocated by the writer itself are ignored).
//   * a callee is inlined when it may write aim fields (or returns an object holding stores) and is small and
//     loop-free; a callee with its own `aimcheck` is trusted to have been verified in the same mode (its C07-tagged
//     ensures are assumed); any other callee havocs the whole heap except the aim fields outside MOD(callee).
// The "unchanged outside MOD" fact is emitted lazily, per heap, as a quantified frame axiom when a heap of a later
// epoch is first read.

import (
	"flag"
	"fmt"
	"go/token"
	"os"
	"go/types"
	"regexp"
	"sort"
	"strings"

	"golang.org/x/tools/go/ssa"
	"golang.org/x/tools/go/ssa/ssautil"
)

var dirRe = regexp.MustCompile(`[A-Za-z0-9_.\-]+/`)

type aimKey struct {
	S   string // named struct type
	Idx int
}

type aimMod struct {
	all  bool
	keys map[aimKey]bool
}

func (m *aimMod) has(k aimKey) bool { return m == nil || m.all || m.keys[k] }
func (m *aimMod) empty() bool      { return m != nil && !m.all && len(m.keys) == 0 }
func (m *aimMod) String() string {
	if m == nil || m.all {
		return "everything"
	}
	var ks []string
	for k := range m.keys {
		ks = append(ks, fmt.Sprintf("%s#%d", k.S[strings.LastIndex(k.S, "/")+1:], k.Idx))
	}
	sort.Strings(ks)
	return "{" + strings.Join(ks, ",") + "}"
}

type aimPath struct {
	accs []string // accessor chain from the root struct value
	key  aimKey
}

type AimInfo struct {
	P      *Program
	cg     *callGraph
	storeT map[string]bool
	taken  []*ssa.Function // module functions used as values
	takenSorted bool
	scans  map[*ssa.Function]*aimScan
	memo   map[*ssa.Function]*aimMod
	useMemo map[*ssa.Function]map[aimKey]bool
	paths  map[string][]aimPath
}

func (P *Program) aimInfo() *AimInfo {
	if P.aimI == nil {
		P.aimI = &AimInfo{P: P, cg: P.newCallGraph(), storeT: map[string]bool{}, scans: map[*ssa.Function]*aimScan{}, memo: map[*ssa.Function]*aimMod{}, useMemo: map[*ssa.Function]map[aimKey]bool{}, paths: map[string][]aimPath{}}
		for _, nm := range P.aimI.cg.named {
			if _, ok := nm.Underlying().(*types.Struct); !ok {
				continue
			}
			ms := P.prog.MethodSets.MethodSet(types.NewPointer(nm))
			for i := 0; i < ms.Len(); i++ {
				if ms.At(i).Obj().Name() == "WithState" {
					P.aimI.storeT[types.TypeString(nm, nil)] = true
				}
			}
		}
	}
	return P.aimI
}

func namedStruct(t types.Type) (*types.Named, *types.Struct) {
	nt, ok := types.Unalias(t).(*types.Named)
	if !ok {
		return nil, nil
	}
	st, ok := nt.Underlying().(*types.Struct)
	if !ok {
		return nil, nil
	}
	return nt, st
}

func (ai *AimInfo) isStoreType(t types.Type) bool {
	nt, _ := namedStruct(t)
	return nt != nil && ai.storeT[types.TypeString(nt, nil)]
}

// isAimFieldType: *storage.State or pointer to a re-aimable store.
func (ai *AimInfo) isAimFieldType(ft types.Type) bool {
	p, ok := ft.Underlying().(*types.Pointer)
	if !ok {
		return false
	}
	if isNamedIn(p.Elem(), "/storage", "State") {
		return true
	}
	return ai.isStoreType(p.Elem())
}

func inModule(nt *types.Named) bool {
	return nt != nil && nt.Obj().Pkg() != nil && strings.HasPrefix(nt.Obj().Pkg().Path(), modPath)
}

// scan collects, over the instructions of the given blocks of fn (all blocks when blocks is nil): the aim fields
// written (not into objects fn allocated itself), the aim fields read, whether a function value of unknown origin is
// called, and the module functions that may be called from those instructions.
type aimScan struct {
	w, r    map[aimKey]bool
	all     bool
	callees []*ssa.Function
}

func (ai *AimInfo) scan(fn *ssa.Function, blocks map[*ssa.BasicBlock]bool) *aimScan {
	sc := &aimScan{w: map[aimKey]bool{}, r: map[aimKey]bool{}}
	var rootOf func(v ssa.Value) ssa.Value
	rootOf = func(v ssa.Value) ssa.Value {
		switch x := v.(type) {
		case *ssa.FieldAddr:
			return rootOf(x.X)
		case *ssa.IndexAddr:
			return rootOf(x.X)
		}
		return v
	}
	add := func(f *ssa.Function) {
		if f != nil {
			sc.callees = append(sc.callees, f)
		}
	}
	for _, b := range fn.Blocks {
		if blocks != nil && !blocks[b] {
			continue
		}
		for _, in := range b.Instrs {
			switch i := in.(type) {
			case *ssa.Store:
				fa, ok := i.Addr.(*ssa.FieldAddr)
				if !ok {
					// whole-struct store through a pointer: every aim field of the struct
					if pt, ok := i.Addr.Type().Underlying().(*types.Pointer); ok {
						if nt, _ := namedStruct(pt.Elem()); inModule(nt) {
							if _, isAlloc := rootOf(i.Addr).(*ssa.Alloc); !isAlloc {
								for _, p := range ai.pathsOf(nt) {
									sc.w[p.key] = true
								}
							}
						}
					}
					break
				}
				pt, ok := fa.X.Type().Underlying().(*types.Pointer)
				if !ok {
					break
				}
				nt, st := namedStruct(pt.Elem())
				if nt == nil || !inModule(nt) {
					break
				}
				ft := st.Field(fa.Field).Type()
				if _, isAlloc := rootOf(fa).(*ssa.Alloc); isAlloc {
					break
				}
				if ai.isAimFieldType(ft) {
					sc.w[aimKey{types.TypeString(nt, nil), fa.Field}] = true
				} else if nt2, _ := namedStruct(ft); nt2 != nil && inModule(nt2) {
					for _, p := range ai.pathsOf(nt2) {
						sc.w[p.key] = true
					}
				}
			case *ssa.UnOp:
				// load of an aim field
				if fa, ok := i.X.(*ssa.FieldAddr); ok {
					if pt, ok := fa.X.Type().Underlying().(*types.Pointer); ok {
						if nt, st := namedStruct(pt.Elem()); nt != nil && inModule(nt) && ai.isAimFieldType(st.Field(fa.Field).Type()) {
							sc.r[aimKey{types.TypeString(nt, nil), fa.Field}] = true
						}
					}
				} else if pt, ok := i.X.Type().Underlying().(*types.Pointer); ok && i.Op.String() == "*" {
					// whole-struct load: reads every aim field inside
					if nt, _ := namedStruct(pt.Elem()); nt != nil && inModule(nt) {
						for _, p := range ai.pathsOf(nt) {
							sc.r[p.key] = true
						}
					}
				}
			case *ssa.Field:
				if nt, st := namedStruct(i.X.Type()); nt != nil && inModule(nt) && ai.isAimFieldType(st.Field(i.Field).Type()) {
					sc.r[aimKey{types.TypeString(nt, nil), i.Field}] = true
				}
			case *ssa.MakeClosure:
				add(i.Fn.(*ssa.Function))
			}
			if ci, ok := in.(ssa.CallInstruction); ok {
				c := ci.Common()
				if c.IsInvoke() {
					if it, ok := c.Value.Type().Underlying().(*types.Interface); ok {
						key := types.TypeString(c.Value.Type(), nil) + "." + c.Method.Name()
						for _, f := range ai.cg.implementations(it, c.Method.Name(), key) {
							add(f)
						}
					}
				} else if f := c.StaticCallee(); f != nil {
					add(f)
				} else {
					if !handedDown(c.Value, 0) {
						// a function value read from memory: any function of that signature whose address is taken
						if sig, ok := c.Value.Type().Underlying().(*types.Signature); ok {
							for _, f := range ai.addrTakenBySig(sig) {
								add(f)
							}
						} else {
							sc.all = true
						}
					}
				}
			}
			for _, op := range in.Operands(nil) {
				if op == nil || *op == nil {
					continue
				}
				if f, ok := (*op).(*ssa.Function); ok {
					add(f)
				}
			}
		}
	}
	return sc
}

func (ai *AimInfo) scanOf(fn *ssa.Function) *aimScan {
	if s, ok := ai.scans[fn]; ok {
		return s
	}
	s := ai.scan(fn, nil)
	ai.scans[fn] = s
	return s
}

// closure: MOD and USE of everything reachable from the start functions (plus the start scan itself).
func (ai *AimInfo) closure(start *aimScan, from []*ssa.Function) (mod *aimMod, use map[aimKey]bool) {
	mod = &aimMod{keys: map[aimKey]bool{}}
	use = map[aimKey]bool{}
	take := func(s *aimScan) {
		if s.all {
			mod.all = true
		}
		for k := range s.w {
			mod.keys[k] = true
		}
		for k := range s.r {
			use[k] = true
		}
	}
	seen := map[*ssa.Function]bool{}
	var dfs func(f *ssa.Function)
	dfs = func(f *ssa.Function) {
		if seen[f] {
			return
		}
		seen[f] = true
		if f.Blocks == nil {
			return // external/assembly: cannot name module struct fields
		}
		if f.Pkg != nil && !strings.HasPrefix(f.Pkg.Pkg.Path(), modPath) {
			// library code cannot touch the module's aim fields except through callbacks it is handed, which are
			// accounted for where they are created
			return
		}
		s := ai.scanOf(f)
		take(s)
		for _, c := range s.callees {
			dfs(c)
		}
	}
	if start != nil {
		take(start)
		for _, c := range start.callees {
			dfs(c)
		}
	}
	for _, f := range from {
		dfs(f)
	}
	return mod, use
}

// mod: aim fields fn may write, transitively; use: aim fields it may read.
func (ai *AimInfo) mod(fn *ssa.Function) *aimMod {
	if m, ok := ai.memo[fn]; ok {
		return m
	}
	m, u := ai.closure(nil, []*ssa.Function{fn})
	ai.memo[fn] = m
	ai.useMemo[fn] = u
	return m
}

func (ai *AimInfo) use(fn *ssa.Function) map[aimKey]bool {
	ai.mod(fn)
	return ai.useMemo[fn]
}

// modOfBlocks: what the given blocks of fn (a loop body) may re-aim.
func (ai *AimInfo) modOfBlocks(fn *ssa.Function, blocks map[*ssa.BasicBlock]bool) *aimMod {
	m, _ := ai.closure(ai.scan(fn, blocks), nil)
	return m
}

func derefT(t types.Type) types.Type {
	if p, ok := t.Underlying().(*types.Pointer); ok {
		return p.Elem()
	}
	return t
}

func (ai *AimInfo) useOfInvoke(c *ssa.CallCommon) map[aimKey]bool {
	it, ok := c.Value.Type().Underlying().(*types.Interface)
	if !ok {
		return nil
	}
	key := types.TypeString(c.Value.Type(), nil) + "." + c.Method.Name()
	out := map[aimKey]bool{}
	for _, f := range ai.cg.implementations(it, c.Method.Name(), key) {
		for k := range ai.use(f) {
			out[k] = true
		}
	}
	return out
}

func (ai *AimInfo) modOfInvoke(c *ssa.CallCommon) *aimMod {
	it, ok := c.Value.Type().Underlying().(*types.Interface)
	if !ok {
		return &aimMod{all: true}
	}
	key := types.TypeString(c.Value.Type(), nil) + "." + c.Method.Name()
	out := &aimMod{keys: map[aimKey]bool{}}
	for _, f := range ai.cg.implementations(it, c.Method.Name(), key) {
		m := ai.mod(f)
		if m.all {
			return &aimMod{all: true}
		}
		for k := range m.keys {
			out.keys[k] = true
		}
	}
	return out
}

// pathsOf lists the aim fields inside a value of struct type nt (through nested struct values).
func (ai *AimInfo) pathsOf(nt *types.Named) []aimPath {
	name := types.TypeString(nt, nil)
	if p, ok := ai.paths[name]; ok {
		return p
	}
	ai.paths[name] = nil // recursion guard
	var out []aimPath
	si := ai.P.reg.StructInfoOf(nt)
	st, _ := nt.Underlying().(*types.Struct)
	if si == nil || st == nil {
		return nil
	}
	for i := 0; i < st.NumFields(); i++ {
		ft := st.Field(i).Type()
		if ai.isAimFieldType(ft) {
			out = append(out, aimPath{accs: []string{si.Fields[i].Acc}, key: aimKey{name, i}})
			continue
		}
		if nt2, _ := namedStruct(ft); nt2 != nil && inModule(nt2) {
			for _, p := range ai.pathsOf(nt2) {
				out = append(out, aimPath{accs: append([]string{si.Fields[i].Acc}, p.accs...), key: p.key})
			}
		}
	}
	ai.paths[name] = out
	return out
}

// ---------------------------------------------------------------- epochs with an origin

type epochOrigin struct {
	merge  bool
	edges  []*PState
	guards []string
	pre    *PState
	mod    *aimMod
}

func epochOfSym(sym string) int {
	if !strings.HasPrefix(sym, "H") {
		return -1
	}
	n := 0
	i := 1
	for i < len(sym) && sym[i] >= '0' && sym[i] <= '9' {
		n = n*10 + int(sym[i]-'0')
		i++
	}
	if i == 1 || i >= len(sym) || sym[i] != '_' {
		return -1
	}
	return n
}

// originAxiom relates a lazily created heap symbol of an epoch to the heaps the epoch came from.
func (ex *Exec) originAxiom(epoch int, name string, s Sort, sym string) {
	o := ex.origins[epoch]
	if o == nil {
		return
	}
	if o.merge {
		t := ex.H(o.edges[len(o.edges)-1], name, s)
		for i := len(o.edges) - 2; i >= 0; i-- {
			t = ite(o.guards[i], ex.H(o.edges[i], name, s), t)
		}
		ex.vc.Assume(eq(sym, t))
		return
	}
	t := ex.heapTypes[name]
	if t == nil || (o.mod != nil && o.mod.all) {
		return
	}
	nt, _ := namedStruct(t)
	if nt == nil {
		return
	}
	var eqs []string
	for _, p := range ex.P.aimInfo().pathsOf(nt) {
		if o.mod.has(p.key) {
			continue
		}
		a, b := "(select "+sym+" r)", "(select @PREV r)"
		for _, acc := range p.accs {
			a, b = "("+acc+" "+a+")", "("+acc+" "+b+")"
		}
		eqs = append(eqs, eq(a, b))
	}
	if len(eqs) == 0 {
		return
	}
	prev := ex.H(o.pre, name, s)
	body := strings.ReplaceAll(and(eqs...), "@PREV", prev)
	ex.vc.Assume(fmt.Sprintf("(forall ((r Int)) (! %s :pattern ((select %s r))))", body, sym))
}

func copyOrigins(m map[int]*epochOrigin) map[int]*epochOrigin {
	n := make(map[int]*epochOrigin, len(m))
	for k, v := range m {
		n[k] = v
	}
	return n
}

// ---------------------------------------------------------------- calls in aim mode

func (f *Frame) aimTerm(st *PState) string {
	ex := f.ex
	var pkg *types.Package
	if ex.top.Pkg != nil {
		pkg = ex.top.Pkg.Pkg
	}
	env := &SpecEnv{ex: ex, f: ex.topFrame, vars: map[string]Val{}, stypes: map[string]*SType{}, cur: st, old: ex.entry, pkg: pkg, expand: ex.expands, what: "aimcheck of " + ex.top.Name()}
	for i, p := range ex.top.Params {
		if i < len(ex.topFrame.params) {
			env.vars[p.Name()] = ex.topFrame.params[i]
			env.vars[p.Name()+"0"] = ex.topFrame.params[i]
		}
	}
	ex.aimAlt = nil
	for _, a := range ex.topFrame.contract.AimAlso {
		ex.aimAlt = append(ex.aimAlt, env.Eval(a.Expr).T)
		ex.vc.trusted[fmt.Sprintf("aim: %s may also use the State %s directly (%s)", shortFn(ex.top), a.Src, a.Tag)] = true
	}
	return env.Eval(ex.aim.Expr).T
}

func (ex *Exec) exemptType(t types.Type) bool {
	if ex.topFrame == nil || ex.topFrame.contract == nil {
		return false
	}
	for _, x := range ex.topFrame.contract.AimExempt {
		if x == typeShort(t) {
			ex.vc.trusted[fmt.Sprintf("aim: stores of type %s are exempt in %s (%s)", x, shortFn(ex.top), ex.topFrame.contract.AimExemptWhy)] = true
			return true
		}
	}
	return false
}

// aimedDeep: formula "every store reachable from v (a store, a master store's parts, or a context struct holding
// stores) whose state pointer the callee may read (use == nil: any) is aimed at `want`"; "" when nothing is to be shown.
func (ex *Exec) aimedDeep(term string, t types.Type, st *PState, want string, use map[aimKey]bool, depth int) string {
	ai := ex.P.aimInfo()
	pt, ok := t.Underlying().(*types.Pointer)
	if !ok || depth > 2 {
		return ""
	}
	if isNamedIn(pt.Elem(), "/storage", "State") {
		alts := []string{eq(term, want)}
		if depth == 0 {
			for _, a := range ex.aimAlt {
				alts = append(alts, eq(term, a))
			}
		}
		return or(alts...)
	}
	nt, stt := namedStruct(pt.Elem())
	if nt == nil || !inModule(nt) || ex.exemptType(pt.Elem()) {
		return ""
	}
	isStore := ai.isStoreType(nt)
	si := ex.reg.StructInfoOf(nt)
	hn, hs := ex.heapOfType(pt.Elem())
	cur := sel(ex.H(st, hn, hs), term)
	name := types.TypeString(nt, nil)
	var cs []string
	for i := 0; i < stt.NumFields(); i++ {
		ft := stt.Field(i).Type()
		if !ai.isAimFieldType(ft) {
			continue
		}
		sub := app(si.Fields[i].Acc, cur)
		if p2 := ft.Underlying().(*types.Pointer); isNamedIn(p2.Elem(), "/storage", "State") {
			if (isStore || depth == 0) && (use == nil || use[aimKey{name, i}]) {
				cs = append(cs, eq(sub, want))
			}
			continue
		}
		if c := ex.aimedDeep(sub, ft, st, want, use, depth+1); c != "" {
			cs = append(cs, c)
		}
	}
	if len(cs) == 0 {
		return ""
	}
	return or(eq(term, "0"), and(cs...))
}

func typeShort(t types.Type) string {
	s := types.TypeString(t, func(p *types.Package) string { return p.Name() })
	return strings.TrimPrefix(s, "*")
}

// aimArgs emits the aim obligations for the receiver and the store-holding arguments of a call.
func (f *Frame) aimArgs(what string, params []types.Type, args []Val, use map[aimKey]bool, in ssa.Instruction, st *PState) {
	ex := f.ex
	want := ""
	for k, a := range args {
		if k >= len(params) || a.T == "" {
			continue
		}
		term := a.T
		if a.LV != nil {
			continue // interior pointer to a local/struct part: handled where the store inside it is used
		}
		if want == "" {
			want = f.aimTerm(st)
		}
		c := ex.aimedDeep(term, params[k], st, want, use, 0)
		if c == "" {
			continue
		}
		tag := ex.aim.Tag
		if tag == "" {
			tag = "C07.aim"
		}
		role := fmt.Sprintf("arg%d", k)
		if k == 0 && strings.Contains(what, ").") {
			role = "recv"
		}
		ex.vc.AddObligation(&Obligation{
			Name: fmt.Sprintf("%s/%s/aim[%s:%s %s]%s", tag, ex.oblPrefix, what, role, typeShort(params[k]), f.inlineSuffix()), Tag: tag, Kind: "aim", Func: ex.top.String(),
			Goal: implies(st.reach, c), Pos: f.pos(in),
			Desc: fmt.Sprintf("the %s handed to %s (%s) is aimed at the deliver state; any earlier CheckTx may have re-aimed the shared store objects at the check state", typeShort(params[k]), what, role),
		})
	}
}

func sigParamTypes(sig *types.Signature, withRecv bool) []types.Type {
	var out []types.Type
	if withRecv && sig.Recv() != nil {
		out = append(out, sig.Recv().Type())
	}
	for i := 0; i < sig.Params().Len(); i++ {
		out = append(out, sig.Params().At(i).Type())
	}
	return out
}

// aimHavoc: a callee ran: everything is forgotten except the aim fields outside mod and the local cells whose
// address never left this function.
func (f *Frame) aimHavoc(st *PState, mod *aimMod) {
	ex := f.ex
	before := st.clone()
	saved := ex.curMod
	ex.curMod = mod
	f.havocAll(st)
	ex.curMod = saved
	ex.keepPrivateCells(before, st)
}

// keepPrivateCells: local variables (Alloc cells of the frames on the stack) whose address is never passed on, and
// the captured variables of the function under verification that nobody writes, keep their content across a call.
func (ex *Exec) keepPrivateCells(before, after *PState) {
	frames := append([]*Frame{}, ex.frames...)
	for _, fr := range frames {
		for _, al := range sortedAllocs(fr.vals) {
			v := fr.vals[al]
			if v.LV != nil || v.T == "" {
				continue
			}
			if addrEscapes(al) {
				continue
			}
			hn, hs := ex.heapOfType(al.Type().(*types.Pointer).Elem())
			if _, used := before.heap[hn]; !used {
				continue
			}
			ex.vc.Assume(eq(sel(ex.H(after, hn, hs), v.T), sel(ex.H(before, hn, hs), v.T)))
		}
	}
	ex.keepCapturedCells(before, after)
}

// keepCapturedCells: the captured variables of the function under verification that nobody writes keep their content.
func (ex *Exec) keepCapturedCells(before, after *PState) {
	top := ex.topFrame
	for k, fv := range top.fn.FreeVars {
		if k >= len(top.freeVars) || cellWrittenIn(fv, top.fn) || !capturedOnlyHere(top.fn, k) {
			continue
		}
		pt, ok := fv.Type().Underlying().(*types.Pointer)
		if !ok {
			continue
		}
		hn, hs := ex.heapOfType(pt.Elem())
		ref := top.freeVars[k].T
		ex.vc.Assume(eq(sel(ex.H(after, hn, hs), ref), sel(ex.H(before, hn, hs), ref)))
	}
}

// capturedOnlyHere: the k-th captured variable of closure fn is initialised once by the enclosing function and
// captured by no other closure.
func capturedOnlyHere(fn *ssa.Function, k int) bool {
	par := fn.Parent()
	if par == nil {
		return false
	}
	var cell ssa.Value
	for _, b := range par.Blocks {
		for _, in := range b.Instrs {
			if mc, ok := in.(*ssa.MakeClosure); ok && mc.Fn == fn && k < len(mc.Bindings) {
				cell = mc.Bindings[k]
			}
		}
	}
	if cell == nil || cell.Referrers() == nil {
		return false
	}
	stores, closures := 0, 0
	for _, r := range *cell.Referrers() {
		switch i := r.(type) {
		case *ssa.Store:
			if i.Addr == cell {
				stores++
			} else {
				return false
			}
		case *ssa.MakeClosure:
			closures++
		case *ssa.UnOp, *ssa.DebugRef:
		default:
			return false
		}
	}
	return stores <= 1 && closures == 1
}

// addrEscapes: the address of a local is passed to a call, stored, captured by a closure, or merged.
func addrEscapes(al *ssa.Alloc) bool {
	seen := map[ssa.Value]bool{}
	var rec func(v ssa.Value) bool
	rec = func(v ssa.Value) bool {
		if seen[v] || v.Referrers() == nil {
			return false
		}
		seen[v] = true
		for _, r := range *v.Referrers() {
			switch i := r.(type) {
			case *ssa.Store:
				if i.Val == v {
					return true
				}
			case *ssa.FieldAddr:
				if rec(i) {
					return true
				}
			case *ssa.IndexAddr:
				if rec(i) {
					return true
				}
			case *ssa.UnOp, *ssa.DebugRef:
			case *ssa.MakeClosure:
				// captured by reference: only a closure that writes the variable (or passes its address on) matters
				inner := i.Fn.(*ssa.Function)
				for k, b := range i.Bindings {
					if b == v && k < len(inner.FreeVars) && cellWrittenIn(inner.FreeVars[k], inner) {
						return true
					}
				}
			default:
				return true
			}
		}
		return false
	}
	return rec(al)
}

func holdsStores(ai *AimInfo, t types.Type, depth int) bool {
	if depth > 2 {
		return false
	}
	switch u := t.Underlying().(type) {
	case *types.Pointer:
		if ai.isAimFieldType(t) {
			return true
		}
		if nt, _ := namedStruct(u.Elem()); nt != nil && inModule(nt) {
			return len(ai.pathsOf(nt)) > 0
		}
	case *types.Tuple:
		for i := 0; i < u.Len(); i++ {
			if holdsStores(ai, u.At(i).Type(), depth+1) {
				return true
			}
		}
	case *types.Struct:
		if nt, _ := namedStruct(t); nt != nil && inModule(nt) {
			return len(ai.pathsOf(nt)) > 0
		}
	}
	return false
}

// aimClosures: closures handed to a callee run at unknown points during the call: their bodies are checked once from
// the state after the call's havoc (every aim field the callee or the closure may write is unknown there).
func (f *Frame) aimClosures(args []Val, st *PState) {
	ex := f.ex
	for _, a := range args {
		if a.Clos == nil {
			continue
		}
		fn := a.Clos.Fn.(*ssa.Function)
		if fn.Blocks == nil {
			continue
		}
		onStack := false
		for _, s := range ex.stack {
			if s == fn {
				onStack = true
			}
		}
		if onStack || ex.depth >= 6 {
			continue
		}
		var ys []Val
		for _, p := range fn.Params {
			ys = append(ys, ex.havocVal("cbp_"+p.Name(), p.Type()))
		}
		ex.depth++
		ex.stack = append(ex.stack, fn)
		f.runCallback(a.Clos, ys, st.clone())
		ex.stack = ex.stack[:len(ex.stack)-1]
		ex.depth--
	}
}

// closureMod: what the closures among args may re-aim.
func (f *Frame) closureMod(ai *AimInfo, m *aimMod, args []Val) *aimMod {
	out := m
	for _, a := range args {
		if a.Clos == nil {
			continue
		}
		cm := ai.mod(a.Clos.Fn.(*ssa.Function))
		if cm.empty() {
			continue
		}
		n := &aimMod{all: out == nil || out.all || cm.all, keys: map[aimKey]bool{}}
		if out != nil {
			for k := range out.keys {
				n.keys[k] = true
			}
		}
		for k := range cm.keys {
			n.keys[k] = true
		}
		out = n
	}
	return out
}

// aimCall is callCommon in aim mode.
func (f *Frame) aimCall(c *ssa.CallCommon, args []Val, in ssa.Instruction, st *PState, rt types.Type) Val {
	ex := f.ex
	ai := ex.P.aimInfo()
	var callee *ssa.Function
	var bindings []Val
	if c.IsInvoke() {
		recv := f.val(c.Value, st)
		if v, ok := f.serializerInvoke(c, args, in, st, rt); ok {
			return v
		}
		if c.Method.Name() == "Error" || c.Method.Name() == "String" {
			return ex.havocVal("str", rt)
		}
		// an interface method with a single implementation in the module is that implementation
		if it, ok := c.Value.Type().Underlying().(*types.Interface); ok {
			key := types.TypeString(c.Value.Type(), nil) + "." + c.Method.Name()
			if impls := ai.cg.implementations(it, c.Method.Name(), key); len(impls) == 1 && impls[0].Signature.Recv() != nil {
				if _, isPtr := impls[0].Signature.Recv().Type().Underlying().(*types.Pointer); isPtr {
					callee = impls[0]
					args = append([]Val{{T: app("ival", recv.T), S: SInt, GT: impls[0].Signature.Recv().Type()}}, args...)
				}
			}
		}
	}
	if c.IsInvoke() && callee == nil {
		sig := c.Method.Type().(*types.Signature)
		what := fmt.Sprintf("%s.%s", typeShort(c.Value.Type()), c.Method.Name())
		f.aimArgs(what, sigParamTypes(sig, false), args, ai.useOfInvoke(c), in, st)
		if ex.dryDepth == 0 {
			ex.vc.Note(fmt.Sprintf("aim: invoke %s mod=%s", what, ai.modOfInvoke(c)))
		}
		f.aimHavoc(st, f.closureMod(ai, ai.modOfInvoke(c), args))
		f.aimClosures(args, st)
		return ex.havocVal("inv", rt)
	}
	if b, ok := c.Value.(*ssa.Builtin); ok {
		return f.builtin(b, c, args, in, st, rt)
	}
	if callee != nil {
		// devirtualised above
	} else if fn := c.StaticCallee(); fn != nil {
		callee = fn
		if mc, ok := c.Value.(*ssa.MakeClosure); ok {
			for _, b := range mc.Bindings {
				bindings = append(bindings, f.val(b, st))
			}
		}
	} else {
		v := f.val(c.Value, st)
		if v.Clos != nil {
			callee = v.Clos.Fn.(*ssa.Function)
			bindings = v.Clos.Bindings
		}
	}
	if callee == nil {
		// a function value of unknown origin (registered extension, governance update table)
		m := &aimMod{all: true}
		var use map[aimKey]bool
		if sig, ok := c.Value.Type().Underlying().(*types.Signature); ok {
			cands := ai.addrTakenBySig(sig)
			m, use = ai.closure(nil, cands)
			ex.vc.trusted[fmt.Sprintf("aim: a call through a function value of type %s is one of the %d module functions of that signature whose address is taken", types.TypeString(sig, func(p *types.Package) string { return p.Name() }), len(cands))] = true
			f.aimArgs("func value "+types.TypeString(sig, func(p *types.Package) string { return p.Name() }), sigParamTypes(sig, false), args, use, in, st)
		}
		f.aimHavoc(st, f.closureMod(ai, m, args))
		f.aimClosures(args, st)
		return ex.havocVal("dyn", rt)
	}
	if v, ok := f.externalModel(callee, args, in, st, rt); ok {
		return v
	}
	name := callee.Name()
	what := dirRe.ReplaceAllString(callee.String(), "")
	f.markCalled(what, st)
	inMod := callee.Pkg != nil && strings.HasPrefix(callee.Pkg.Pkg.Path(), modPath)
	if !inMod && callee.Pkg != nil {
		// library function: cannot touch aim fields; callbacks it is handed are closures of this function
		hasFn := false
		for _, a := range args {
			if a.Clos != nil {
				hasFn = true
			}
		}
		_ = hasFn
		f.aimHavoc(st, f.closureMod(ai, &aimMod{keys: map[aimKey]bool{}}, args))
		f.aimClosures(args, st)
		return ex.havocVal("lib", rt)
	}
	ptypes := sigParamTypes(callee.Signature, true)
	if cct := ex.P.ContractFor(callee); cct != nil && cct.AimCheck != nil {
		// verified in the same mode: its aim must be ours; its C07 ensures are assumed
		pre := st.clone()
		vars := f.specVarsFor(cct, callee, callee.Signature, f.aimPlainArgs(args, pre), false)
		env := &SpecEnv{ex: ex, vars: vars, stypes: map[string]*SType{}, cur: pre, old: pre, pkg: ex.P.typesPkg(cct.Pkg), expand: ex.expands, what: "aimcheck of " + cct.Target}
		theirs := env.Eval(cct.AimCheck.Expr).T
		tag := ex.aim.Tag
		ex.vc.AddObligation(&Obligation{
			Name: fmt.Sprintf("%s/%s/aim-pass[%s]%s", tag, ex.oblPrefix, what, f.inlineSuffix()), Tag: tag, Kind: "aim", Func: ex.top.String(),
			Goal: implies(st.reach, eq(theirs, f.aimTerm(st))), Pos: f.pos(in),
			Desc: fmt.Sprintf("%s is checked against the state `%s`: that must be the deliver state here", what, cct.AimCheck.Src),
		})
		for _, rq := range cct.AimReq {
			ex.vc.AddObligation(&Obligation{
				Name: fmt.Sprintf("%s/%s/aim-pre[%s]%s", rq.Tag, ex.oblPrefix, what, f.inlineSuffix()), Tag: rq.Tag, Kind: "aim", Func: ex.top.String(),
				Goal: implies(st.reach, env.boolE(rq.Expr)), Pos: f.pos(in),
				Desc: fmt.Sprintf("aim precondition of %s: %s", what, rq.Src),
			})
		}
		f.aimHavoc(st, ai.mod(callee))
		res := ex.havocVal("ar", rt)
		var rs []Val
		if res.S == "Tuple" {
			rs = res.Tuple
		} else if callee.Signature.Results().Len() == 1 {
			rs = []Val{res}
		}
		post := st.clone()
		pvars := f.specVarsFor(cct, callee, callee.Signature, f.aimPlainArgs(args, post), false)
		for k, v := range pvars {
			vars[k] = v
		}
		bindResults(vars, callee.Signature, rs)
		st.brk = post.brk
		for hn, t := range post.heap {
			st.heap[hn] = t
		}
		penv := &SpecEnv{ex: ex, vars: vars, stypes: map[string]*SType{}, cur: st, old: pre, pkg: ex.P.typesPkg(cct.Pkg), expand: ex.expands, what: "aim ensures of " + cct.Target}
		for _, en := range cct.AimEns {
			ex.vc.AssumeIf(st.reach, penv.boolE(en.Expr))
		}
		ex.vc.usedContracts[shortPkg(cct.Pkg)+"."+cct.Target+" (aimcheck)"] = true
		return res
	}
	mod := ai.mod(callee)
	aimer := strings.HasPrefix(name, "With") || strings.HasPrefix(name, "New") || strings.HasPrefix(name, "new")
	if callee.Signature.Recv() != nil {
		if rp, ok := callee.Signature.Recv().Type().Underlying().(*types.Pointer); ok && ex.exemptType(rp.Elem()) {
			// a store that is exempt by design: its methods are not looked into
			f.aimHavoc(st, f.closureMod(ai, mod, args))
			f.aimClosures(args, st)
			return ex.havocVal("ax", rt)
		}
	}
	if !aimer {
		use := ai.use(callee)
		if callee.Signature.Recv() != nil && isNamedIn(derefT(callee.Signature.Recv().Type()), "/storage", "State") {
			use = nil
		}
		f.aimArgs(what, ptypes, args, use, in, st)
	}
	wantInline := !mod.empty() || holdsStores(ai, callee.Signature.Results(), 0)
	if ex.dryDepth == 0 {
		ex.vc.Note(fmt.Sprintf("aim: call %s mod=%s inline=%v/%v", what, mod, wantInline, wantInline && f.canInline(callee)))
	}
	if wantInline && f.canInline(callee) {
		return f.inline(callee, args, bindings, in, st, rt)
	}
	if wantInline {
		ex.vc.Note(fmt.Sprintf("aim: %s may re-aim %s and cannot be inlined: those aim fields are forgotten", what, mod))
	}
	f.aimHavoc(st, f.closureMod(ai, mod, args))
	f.aimClosures(args, st)
	return ex.havocVal("ac", rt)
}

func aimTagged(tag, aimTag string) bool {
	p := aimTag
	if i := strings.Index(p, "."); i >= 0 {
		p = p[:i]
	}
	if p == "" {
		p = "C07"
	}
	return tag == p || strings.HasPrefix(tag, p+".")
}

// splitAim moves the clauses tagged with the aimcheck property out of the ordinary clause lists: they are used in
// aim mode only (there the ordinary ones are ignored).
func (ct *Contract) splitAim() {
	if ct.AimCheck == nil {
		return
	}
	split := func(cs []Clause, aim *[]Clause) []Clause {
		var keep []Clause
		for _, c := range cs {
			if aimTagged(c.Tag, ct.AimCheck.Tag) {
				*aim = append(*aim, c)
			} else {
				keep = append(keep, c)
			}
		}
		return keep
	}
	ct.Requires = split(ct.Requires, &ct.AimReq)
	ct.Ensures = split(ct.Ensures, &ct.AimEns)
	ct.Claims = split(ct.Claims, &ct.AimClaims)
	if ct.AimInvs == nil {
		ct.AimInvs = map[string][]Clause{}
	}
	for k, cs := range ct.Invs {
		var a []Clause
		ct.Invs[k] = split(cs, &a)
		if len(a) > 0 {
			ct.AimInvs[k] = append(ct.AimInvs[k], a...)
		}
		if len(ct.Invs[k]) == 0 {
			delete(ct.Invs, k)
		}
	}
}

// aimView: the clauses of a contract that matter in aim mode.
func (ct *Contract) aimView() *Contract {
	n := &Contract{Pkg: ct.Pkg, Target: ct.Target, AimCheck: ct.AimCheck, AimExempt: ct.AimExempt, AimExemptWhy: ct.AimExemptWhy, AimAlso: ct.AimAlso, MustCall: ct.MustCall, Invs: map[string][]Clause{}, File: ct.File, Line: ct.Line}
	n.Requires, n.Ensures, n.Claims = ct.AimReq, ct.AimEns, ct.AimClaims
	for k, cs := range ct.AimInvs {
		n.Invs[k] = cs
	}
	n.AimEns = ct.AimEns
	return n
}

// aimOnly: a contract block that carries nothing but aim-mode clauses.
func (ct *Contract) aimOnly() bool {
	if ct.AimCheck == nil && len(ct.NoWrite) > 0 && !ct.Trusted && len(ct.Requires)+len(ct.Ensures)+len(ct.Claims)+len(ct.Modifies)+len(ct.Updates)+len(ct.Invs)+len(ct.Exports)+len(ct.Assumes) == 0 && ct.Safety == "" && !ct.ModNothing && ct.Implements == "" {
		return true // a block with nothing but call-graph frame clauses
	}
	if ct.AimCheck == nil || ct.Trusted || len(ct.Modifies) > 0 || len(ct.Updates) > 0 || ct.Safety != "" || ct.ModNothing || len(ct.Exports) > 0 || len(ct.Assumes) > 0 || ct.Implements != "" {
		return false
	}
	ok := func(cs []Clause) bool {
		for _, c := range cs {
			if !aimTagged(c.Tag, ct.AimCheck.Tag) {
				return false
			}
		}
		return true
	}
	if !ok(ct.Requires) || !ok(ct.Ensures) || !ok(ct.Claims) {
		return false
	}
	for _, cs := range ct.Invs {
		if !ok(cs) {
			return false
		}
	}
	return true
}

func (ct *Contract) mergeAim(a *Contract) {
	ct.NoWrite = append(ct.NoWrite, a.NoWrite...)
	ct.LongLived = append(ct.LongLived, a.LongLived...)
	ct.MayWrite = append(ct.MayWrite, a.MayWrite...)
	ct.MustCall = append(ct.MustCall, a.MustCall...)
	if a.AimCheck == nil {
		return
	}
	ct.AimCheck, ct.AimExempt, ct.AimExemptWhy, ct.AimAlso = a.AimCheck, a.AimExempt, a.AimExemptWhy, a.AimAlso
	ct.Requires = append(ct.Requires, a.Requires...)
	ct.Ensures = append(ct.Ensures, a.Ensures...)
	ct.Claims = append(ct.Claims, a.Claims...)
	if ct.Invs == nil {
		ct.Invs = map[string][]Clause{}
	}
	for k, cs := range a.Invs {
		ct.Invs[k] = append(ct.Invs[k], cs...)
	}
}

// aimPlainArgs: argument values for evaluating a callee's aim clauses; an interior pointer (&x.f) becomes a pointer
// to a copy of the part it points to.
func (f *Frame) aimPlainArgs(args []Val, st *PState) []Val {
	ex := f.ex
	out := make([]Val, len(args))
	for k, a := range args {
		switch {
		case a.LV != nil && (len(a.LV.Path) > 0 || a.LV.Glob != ""):
			pt := a.GT.Underlying().(*types.Pointer)
			r := ex.alloc(st, "cpin")
			hn, hs := ex.heapOfType(pt.Elem())
			ex.setH(st, hn, hs, sto(ex.H(st, hn, hs), r, ex.loadLV(st, a.LV)))
			out[k] = Val{T: r, S: SInt, GT: a.GT}
		case a.LV != nil:
			out[k] = Val{T: a.LV.Base, S: SInt, GT: a.GT}
		default:
			out[k] = a
		}
	}
	return out
}

// handedDown: the called function value is a parameter, a captured variable, or a closure made here (directly or
// through a local variable cell): such closures are accounted for in the function that creates them.
func handedDown(v ssa.Value, depth int) bool {
	if depth > 3 {
		return false
	}
	switch x := v.(type) {
	case *ssa.Builtin, *ssa.Parameter, *ssa.FreeVar, *ssa.MakeClosure, *ssa.Function:
		return true
	case *ssa.UnOp:
		switch cell := x.X.(type) {
		case *ssa.FreeVar:
			return true
		case *ssa.Alloc:
			if cell.Referrers() == nil {
				return false
			}
			for _, r := range *cell.Referrers() {
				if st, ok := r.(*ssa.Store); ok && st.Addr == cell && !handedDown(st.Val, depth+1) {
					return false
				}
			}
			return true
		}
	case *ssa.Phi:
		for _, e := range x.Edges {
			if !handedDown(e, depth+1) {
				return false
			}
		}
		return true
	case *ssa.Const:
		return true // nil function value
	}
	return false
}

// addrTakenBySig: the module functions (and closures) that are used as values and have this signature — the possible
// targets of a call through a function value read from memory.
func (ai *AimInfo) addrTakenBySig(sig *types.Signature) []*ssa.Function {
	if ai.taken == nil {
		ai.taken = []*ssa.Function{}
		seen := map[*ssa.Function]bool{}
		var visit func(fn *ssa.Function)
		visit = func(fn *ssa.Function) {
			for _, b := range fn.Blocks {
				for _, in := range b.Instrs {
					if mc, ok := in.(*ssa.MakeClosure); ok {
						if f := mc.Fn.(*ssa.Function); !seen[f] {
							seen[f] = true
							ai.taken = append(ai.taken, f)
						}
						continue
					}
					var callVal ssa.Value
					if ci, ok := in.(ssa.CallInstruction); ok && !ci.Common().IsInvoke() {
						callVal = ci.Common().Value
					}
					for _, op := range in.Operands(nil) {
						if op == nil || *op == nil || *op == callVal {
							continue
						}
						if f, ok := (*op).(*ssa.Function); ok && !seen[f] {
							seen[f] = true
							ai.taken = append(ai.taken, f)
						}
					}
				}
			}
			for _, an := range fn.AnonFuncs {
				visit(an)
			}
		}
		for _, pkg := range ai.P.prog.AllPackages() {
			if !strings.HasPrefix(pkg.Pkg.Path(), modPath) {
				continue
			}
			for _, m := range pkg.Members {
				switch x := m.(type) {
				case *ssa.Function:
					visit(x)
				case *ssa.Type:
					for _, t := range []types.Type{x.Type(), types.NewPointer(x.Type())} {
						ms := ai.P.prog.MethodSets.MethodSet(t)
						for i := 0; i < ms.Len(); i++ {
							if f := ai.P.prog.MethodValue(ms.At(i)); f != nil && f.Pkg == pkg {
								visit(f)
							}
						}
					}
				}
			}
		}
	}
	if !ai.takenSorted {
		// package members are a map: fix the order (it decides in which order struct sorts are first registered, hence
		// the text of every query)
		sort.Slice(ai.taken, func(i, j int) bool { return ai.taken[i].String() < ai.taken[j].String() })
		ai.takenSorted = true
	}
	var out []*ssa.Function
	for _, f := range ai.taken {
		fs := f.Signature
		if fs.Recv() != nil {
			continue
		}
		if types.Identical(types.NewSignatureType(nil, nil, nil, fs.Params(), fs.Results(), fs.Variadic()), types.NewSignatureType(nil, nil, nil, sig.Params(), sig.Results(), sig.Variadic())) {
			out = append(out, f)
		}
	}
	return out
}

// ---------------------------------------------------------------- which fields of long-lived objects can a function write?

// fieldWrites: every (struct type, field) of a module struct that fn may write, transitively, into an object it did
// not allocate itself. Used for the CheckTx frame of C07: besides the aim pointers, which fields of the shared store
// objects can a mempool check leave changed?
func (ai *AimInfo) fieldWrites(fn *ssa.Function) (map[string]string, bool) {
	return ai.fieldWritesX(fn, false)
}

// withMaps: also count `x.f[k] = v` / delete(x.f, k) on a map-typed field f as a write of f.
func (ai *AimInfo) fieldWritesX(fn *ssa.Function, withMaps bool) (map[string]string, bool) {
	out := map[string]string{}
	unknown := false
	seen := map[*ssa.Function]bool{}
	var deferred []*ssa.Function
	var rootOf func(v ssa.Value) ssa.Value
	rootOf = func(v ssa.Value) ssa.Value {
		switch x := v.(type) {
		case *ssa.FieldAddr:
			return rootOf(x.X)
		case *ssa.IndexAddr:
			return rootOf(x.X)
		}
		return v
	}
	var dfs func(f *ssa.Function)
	dfs = func(f *ssa.Function) {
		if seen[f] || f.Blocks == nil {
			return
		}
		seen[f] = true
		if f.Pkg != nil && !strings.HasPrefix(f.Pkg.Pkg.Path(), modPath) {
			return
		}
		for _, b := range f.Blocks {
			for _, in := range b.Instrs {
				var addr ssa.Value
				// package-level variables of the module: stores into them (or into what they hold: fields, elements, map
				// entries) and handing their address to a function outside the module (sync.Map.Store, atomic.Add, Once.Do)
				// sources of run-to-run / node-to-node divergence (C01): wall clock, randomness, environment, process identity,
				// goroutines / select, and ranging over a map (Go randomises the order)
				for _, k := range nondetSources(in) {
					if _, had := out[k]; !had {
						out[k] = dirRe.ReplaceAllString(f.String(), "")
					}
				}
				for _, g := range globalWrites(in, rootOf) {
					key := "global:" + g.Pkg.Pkg.Path()[strings.LastIndex(g.Pkg.Pkg.Path(), "/")+1:] + "." + g.Name()
					if _, had := out[key]; !had {
						out[key] = dirRe.ReplaceAllString(f.String(), "")
					}
				}
				if mu, ok := in.(*ssa.MapUpdate); ok && withMaps {
					if ld, ok := mu.Map.(*ssa.UnOp); ok && ld.Op == token.MUL {
						addr = ld.X
					}
				} else if c, ok := in.(*ssa.Call); ok && withMaps {
					if b, ok := c.Call.Value.(*ssa.Builtin); ok && b.Name() == "delete" {
						if ld, ok := c.Call.Args[0].(*ssa.UnOp); ok && ld.Op == token.MUL {
							addr = ld.X
						}
					}
				} else if st, ok := in.(*ssa.Store); ok {
					addr = st.Addr
				}
				if addr == nil {
					continue
				}
				// writes through x.f, x.f[i], x.f.g ...: the outermost named module struct field on the path
				for {
					if ia, ok := addr.(*ssa.IndexAddr); ok {
						addr = ia.X
						continue
					}
					break
				}
				fa, ok := addr.(*ssa.FieldAddr)
				if !ok {
					continue
				}
				if _, isAlloc := rootOf(fa).(*ssa.Alloc); isAlloc {
					continue
				}
				pt, ok := fa.X.Type().Underlying().(*types.Pointer)
				if !ok {
					continue
				}
				nt, stt := namedStruct(pt.Elem())
				if nt == nil || !inModule(nt) {
					continue
				}
				key := typeShort(nt) + "." + stt.Field(fa.Field).Name()
				if _, had := out[key]; !had {
					out[key] = dirRe.ReplaceAllString(f.String(), "")
				}
			}
		}
		s := ai.scanOf(f)
		if s.all {
			unknown = true
		}
		for _, c := range s.callees {
			// a closure can only be called once the function that creates it has run: a closure that was found as a
			// possible target of a function-value call (by signature) waits until its parent is reachable
			if c.Parent() != nil && !seen[c.Parent()] && !createdIn(f, c) {
				deferred = append(deferred, c)
				continue
			}
			dfs(c)
		}
	}
	dfs(fn)
	for changed := true; changed; {
		changed = false
		for _, c := range deferred {
			if !seen[c] && seen[c.Parent()] {
				dfs(c)
				changed = true
			}
		}
	}
	return out, unknown
}

// nondetSources: keys "nondet:<what>" / "maprange:<function>" for an instruction that can make two runs of the same history differ.
func nondetSources(in ssa.Instruction) []string {
	switch x := in.(type) {
	case *ssa.Go:
		return []string{"nondet:go-statement"}
	case *ssa.Select:
		return []string{"nondet:select-statement"}
	case *ssa.Range:
		if _, ok := x.X.Type().Underlying().(*types.Map); ok {
			fn := x.Parent()
			return []string{"maprange:" + dirRe.ReplaceAllString(fn.String(), "")}
		}
	case ssa.CallInstruction:
		c := x.Common()
		callee := c.StaticCallee()
		if callee == nil {
			return nil
		}
		n := callee.String()
		for _, p := range []string{"time.Now", "time.Since", "time.Until", "math/rand.", "(*math/rand.", "crypto/rand.", "os.Getenv", "os.LookupEnv", "os.Hostname", "os.Getpid",
			"github.com/google/uuid.New", "github.com/google/uuid.Must", "runtime.NumGoroutine", "runtime.NumCPU"} {
			if strings.HasPrefix(n, p) {
				// keyed by the calling function: the allow-list names sites (the logger's time stamps), not the source as such
				site := dirRe.ReplaceAllString(x.Parent().String(), "")
				if pf := x.Parent(); pf.Pkg != nil && pf.Pkg.Pkg.Path() == modPath+"/log" {
					site = "log" // the logger's time stamps: one site
				}
				return []string{"nondet:" + n + "@" + site}
			}
		}
	}
	return nil
}

// globalWrites: the module's package-level variables instruction `in` may write.
func globalWrites(in ssa.Instruction, rootOf func(ssa.Value) ssa.Value) []*ssa.Global {
	var out []*ssa.Global
	modGlobal := func(v ssa.Value) *ssa.Global {
		// the global itself (an address), or the value loaded from it (a map / pointer / slice it holds)
		r := rootOf(v)
		if ld, ok := r.(*ssa.UnOp); ok && ld.Op == token.MUL {
			r = rootOf(ld.X)
		}
		if g, ok := r.(*ssa.Global); ok && g.Pkg != nil && strings.HasPrefix(g.Pkg.Pkg.Path(), modPath) {
			return g
		}
		return nil
	}
	switch x := in.(type) {
	case *ssa.Store:
		if g := modGlobal(x.Addr); g != nil {
			out = append(out, g)
		}
	case *ssa.MapUpdate:
		if g := modGlobal(x.Map); g != nil {
			out = append(out, g)
		}
	case ssa.CallInstruction:
		c := x.Common()
		if b, ok := c.Value.(*ssa.Builtin); ok {
			if b.Name() == "delete" && len(c.Args) > 0 {
				if g := modGlobal(c.Args[0]); g != nil {
					out = append(out, g)
				}
			}
			return out
		}
		callee := c.StaticCallee()
		if callee != nil && callee.Pkg != nil && strings.HasPrefix(callee.Pkg.Pkg.Path(), modPath) {
			return out // a module function: its own stores are seen when it is visited
		}
		name := ""
		if callee != nil {
			name = callee.String()
		} else if c.IsInvoke() {
			name = c.Method.Name()
		}
		switch name {
		case "(*sync.Map).Load", "(*sync.Map).Range", "(*sync.Mutex).Lock", "(*sync.Mutex).Unlock", "(*sync.RWMutex).Lock", "(*sync.RWMutex).Unlock",
			"(*sync.RWMutex).RLock", "(*sync.RWMutex).RUnlock", "sync/atomic.LoadInt64", "sync/atomic.LoadUint64", "sync/atomic.LoadInt32", "sync/atomic.LoadUint32":
			return out
		}
		args := c.Args
		if c.IsInvoke() {
			args = append([]ssa.Value{c.Value}, args...)
		}
		for _, a := range args {
			// only the ADDRESS of a global (or of something inside it) lets an outside function write it
			if _, isPtr := a.Type().Underlying().(*types.Pointer); !isPtr {
				continue
			}
			if g, ok := rootOf(a).(*ssa.Global); ok && g.Pkg != nil && strings.HasPrefix(g.Pkg.Pkg.Path(), modPath) {
				out = append(out, g)
			}
		}
	}
	return out
}

// createdIn: f contains the MakeClosure of c (or names c directly).
func createdIn(f, c *ssa.Function) bool {
	for _, an := range f.AnonFuncs {
		if an == c {
			return true
		}
	}
	return false
}

func fieldWritesCmd(argv []string) {
	fs := flag.NewFlagSet("fieldwrites", flag.ExitOnError)
	repo := fs.String("repo", "/repo", "repository root")
	pkgs := fs.String("pkgs", "./app,./external_apps/...", "comma separated package patterns")
	only := fs.String("func", "txChecker$1", "function name (substring of the ssa name)")
	rootsF := fs.String("roots", "", "comma separated root types (pkg.Type): only fields of struct types reachable from them, map updates included")
	fs.Parse(argv)
	P, err := LoadProgram(*repo, strings.Split(*pkgs, ","))
	if err != nil {
		fmt.Fprintln(os.Stderr, "load:", err)
		os.Exit(2)
	}
	ai := P.aimInfo()
	for fn := range ssautil.AllFunctions(P.prog) {
		if !strings.Contains(fn.String(), *only) {
			continue
		}
		w, unk := ai.fieldWrites(fn)
		var ll map[string]bool
		if *rootsF != "" {
			w, unk = ai.fieldWritesX(fn, true)
			ll = ai.longLivedTypes(strings.Split(*rootsF, ","))
		}
		var ks []string
		for k := range w {
			if i := strings.LastIndex(k, "."); ll != nil && (i < 0 || !ll[k[:i]]) {
				continue
			}
			ks = append(ks, k)
		}
		sort.Strings(ks)
		fmt.Printf("== %s (unknown function values: %v)\n", fn.String(), unk)
		for _, k := range ks {
			fmt.Printf("  %-60s first seen in %s\n", k, w[k])
		}
	}
}

// NoWriteObligations evaluates the `nowrite pkg.Type.field, ...` clauses: a call-graph frame condition (static calls,
// interface calls by class hierarchy, function values by signature) — the function never writes that field of an
// object it did not allocate itself.
func (P *Program) NoWriteObligations(hasTag func(string) bool) []*Obligation {
	var out []*Obligation
	var keys []string
	for k, ct := range P.contracts {
		if len(ct.NoWrite) > 0 {
			keys = append(keys, k)
		}
	}
	sort.Strings(keys)
	for _, k := range keys {
		ct := P.contracts[k]
		fn := P.FindFunc(ct)
		if fn == nil {
			continue
		}
		ai := P.aimInfo()
		var w map[string]string
		var unk bool
		for _, nw := range ct.NoWrite {
			if !hasTag(nw.Tag) {
				continue
			}
			if w == nil {
				w, unk = ai.fieldWrites(fn)
			}
			toks := strings.Fields(strings.ReplaceAll(nw.Src, ",", " "))
			except := map[string]bool{}
			for _, t := range toks {
				if strings.HasPrefix(t, "@except:") {
					except["global:"+strings.TrimPrefix(t, "@except:")] = true
				}
			}
			for _, fld := range toks {
				if strings.HasPrefix(fld, "@except:") {
					continue
				}
				ob := &Obligation{
					Name: fmt.Sprintf("%s/%s.%s/nowrite[%s]#1", nw.Tag, shortPkg(ct.Pkg), ct.Target, fld), Tag: nw.Tag, Kind: "nowrite", Func: fn.String(),
					Desc: fmt.Sprintf("call-graph frame: %s never writes %s of an object it did not allocate", ct.Target, fld),
				}
				if fld == "@nondet" {
					// no source of run-to-run / node-to-node divergence in the call graph: wall clock, randomness, environment,
					// process identity, goroutines / select, ranging over a map - except the sites listed with @except:<key>
					ob.Desc = fmt.Sprintf("call-graph frame: nothing reachable from %s reads the wall clock, randomness, the environment or the process identity, starts a goroutine, selects, or ranges over a map, except at the listed sites", ct.Target)
					exc := map[string]bool{}
					for _, t := range toks {
						if strings.HasPrefix(t, "@except:") {
							exc[strings.TrimPrefix(t, "@except:")] = true
						}
					}
					var hit []string
					for k, where := range w {
						if (strings.HasPrefix(k, "nondet:") || strings.HasPrefix(k, "maprange:")) && !exc[k] {
							hit = append(hit, k+" (in "+where+")")
						}
					}
					sort.Strings(hit)
					switch {
					case unk:
						ob.Result = &SolveResult{Status: "unknown", Backend: "callgraph", Output: "a function value of unresolvable type is called"}
					case len(hit) > 0:
						ob.Result = &SolveResult{Status: "sat", Backend: "callgraph", Output: "sources of divergence not on the list: " + strings.Join(hit, "; ")}
					default:
						ob.Result = &SolveResult{Status: "unsat", Backend: "callgraph"}
					}
					out = append(out, ob)
					continue
				}
				if fld == "@globals" {
					// no package-level variable of the module is written (stored into, map entry set/deleted, address handed to a
					// function outside the module) anywhere in the call graph, except the ones listed with @except:pkg.name
					ob.Desc = fmt.Sprintf("call-graph frame: %s writes no package-level variable of the module (process-wide state survives a discarded session and is shared by CheckTx and DeliverTx)", ct.Target)
					var hit []string
					for k, where := range w {
						if strings.HasPrefix(k, "global:") && !except[k] {
							hit = append(hit, strings.TrimPrefix(k, "global:")+" (in "+where+")")
						}
					}
					sort.Strings(hit)
					switch {
					case unk:
						ob.Result = &SolveResult{Status: "unknown", Backend: "callgraph", Output: "a function value of unresolvable type is called"}
					case len(hit) > 0:
						ob.Result = &SolveResult{Status: "sat", Backend: "callgraph", Output: "package-level variables written: " + strings.Join(hit, "; ")}
					default:
						ob.Result = &SolveResult{Status: "unsat", Backend: "callgraph"}
					}
					out = append(out, ob)
					continue
				}
				switch {
				case !ai.fieldExists(fld):
					// a misspelt field would make the clause hold vacuously
					ob.Result = &SolveResult{Status: "unknown", Backend: "callgraph", Output: "no such struct field in the loaded program: " + fld}
				case unk:
					ob.Result = &SolveResult{Status: "unknown", Backend: "callgraph", Output: "a function value of unresolvable type is called"}
				case w[fld] != "":
					ob.Result = &SolveResult{Status: "sat", Backend: "callgraph", Output: "written in " + w[fld] + " (reachable from " + ct.Target + ")"}
				default:
					ob.Result = &SolveResult{Status: "unsat", Backend: "callgraph"}
				}
				out = append(out, ob)
			}
		}
	}
	return out
}

// longLivedTypes: the named module struct types reachable, through fields / pointers / slices / arrays / maps and the
// module's own (non-empty) interfaces, from the given root types: the objects that outlive a transaction.
func (ai *AimInfo) longLivedTypes(roots []string) map[string]bool {
	out := map[string]bool{}
	seen := map[types.Type]bool{}
	var walk func(t types.Type)
	walk = func(t types.Type) {
		if t == nil || seen[t] {
			return
		}
		seen[t] = true
		switch u := t.(type) {
		case *types.Named:
			if !inModule(u) {
				return
			}
			if _, ok := u.Underlying().(*types.Struct); ok {
				out[typeShort(u)] = true
			}
			if it, ok := u.Underlying().(*types.Interface); ok {
				if it.NumMethods() == 0 {
					return
				}
				for _, nm := range ai.cg.named {
					if _, isI := nm.Underlying().(*types.Interface); isI {
						continue
					}
					if types.Implements(nm, it) || types.Implements(types.NewPointer(nm), it) {
						walk(nm)
					}
				}
				return
			}
			walk(u.Underlying())
		case *types.Pointer:
			walk(u.Elem())
		case *types.Slice:
			walk(u.Elem())
		case *types.Array:
			walk(u.Elem())
		case *types.Map:
			walk(u.Key())
			walk(u.Elem())
		case *types.Struct:
			for k := 0; k < u.NumFields(); k++ {
				walk(u.Field(k).Type())
			}
		}
	}
	for _, r := range roots {
		for _, nm := range ai.cg.named {
			if typeShort(nm) == r {
				walk(nm)
			}
		}
	}
	return out
}

// MayWriteObligations: `longlived <root types>` + `maywrite <fields>`: over the call graph of the function, every field
// of a long-lived struct type that is written (in an object the writer did not allocate) is on the allow-list.
// One obligation per written field, so a newly written field is a new, failing obligation.
func (P *Program) MayWriteObligations(hasTag func(string) bool) []*Obligation {
	var out []*Obligation
	var keys []string
	for k, ct := range P.contracts {
		if len(ct.MayWrite) > 0 && len(ct.LongLived) > 0 {
			keys = append(keys, k)
		}
	}
	sort.Strings(keys)
	for _, k := range keys {
		ct := P.contracts[k]
		tag := ct.LongLived[0].Tag
		fn := P.FindFunc(ct)
		if fn == nil || !hasTag(tag) {
			continue
		}
		ai := P.aimInfo()
		var roots []string
		for _, c := range ct.LongLived {
			roots = append(roots, strings.Fields(strings.ReplaceAll(c.Src, ",", " "))...)
		}
		allow := map[string]bool{}
		for _, c := range ct.MayWrite {
			for _, fld := range strings.Fields(strings.ReplaceAll(c.Src, ",", " ")) {
				allow[fld] = true
			}
		}
		ll := ai.longLivedTypes(roots)
		w, unk := ai.fieldWritesX(fn, true)
		mk := func(fld string) *Obligation {
			return &Obligation{
				Name: fmt.Sprintf("%s/%s.%s/maywrite[%s]#1", tag, shortPkg(ct.Pkg), ct.Target, fld), Tag: tag, Kind: "maywrite", Func: fn.String(),
				Desc: fmt.Sprintf("call-graph frame: %s of a long-lived object (reachable from %s) is written under %s only if it is on the allow-list", fld, strings.Join(roots, ", "), ct.Target),
			}
		}
		if len(ll) == 0 {
			ob := mk("?")
			ob.Result = &SolveResult{Status: "unknown", Backend: "callgraph", Output: "no struct type reachable from the longlived roots: " + strings.Join(roots, ", ")}
			out = append(out, ob)
			continue
		}
		var wk []string
		for fld := range w {
			wk = append(wk, fld)
		}
		sort.Strings(wk)
		for _, fld := range wk {
			i := strings.LastIndex(fld, ".")
			if i < 0 || !ll[fld[:i]] {
				continue
			}
			ob := mk(fld)
			switch {
			case unk:
				ob.Result = &SolveResult{Status: "unknown", Backend: "callgraph", Output: "a function value of unresolvable type is called"}
			case allow[fld]:
				ob.Result = &SolveResult{Status: "unsat", Backend: "callgraph"}
			default:
				ob.Result = &SolveResult{Status: "sat", Backend: "callgraph", Output: "written in " + w[fld] + " (reachable from " + ct.Target + "); not on the maywrite list: in-memory state of a long-lived object is not undone when the transaction's session is discarded"}
			}
			out = append(out, ob)
		}
		for _, fld := range sortedKeys(allow) {
			if !ai.fieldExists(fld) {
				ob := mk(fld)
				ob.Result = &SolveResult{Status: "unknown", Backend: "callgraph", Output: "no such struct field in the loaded program: " + fld}
				out = append(out, ob)
			}
		}
	}
	return out
}

// fieldExists: "pkg.Type.field" names a field of a named struct type of the module.
func (ai *AimInfo) fieldExists(name string) bool {
	i := strings.LastIndex(name, ".")
	if i < 0 {
		return false
	}
	tn, fn := name[:i], name[i+1:]
	for _, nm := range ai.cg.named {
		st, ok := nm.Underlying().(*types.Struct)
		if !ok || typeShort(nm) != tn {
			continue
		}
		for k := 0; k < st.NumFields(); k++ {
			if st.Field(k).Name() == fn {
				return true
			}
		}
	}
	return false
}

// ---------------------------------------------------------------- mustcall: the hooks a consensus entry point has to run

const mustCallHeap = "G:mustcall"

func (ex *Exec) mustCallIdx(name string) int {
	if ex.topFrame == nil || ex.topFrame.contract == nil {
		return -1
	}
	k := 0
	for _, mc := range ex.topFrame.contract.MustCall {
		for _, n := range strings.Fields(strings.ReplaceAll(mc.Src, ",", " ")) {
			k++
			if strings.HasSuffix(name, n) {
				return k
			}
		}
	}
	return -1
}

// markCalled: a function named in a mustcall clause is being called on this path.
func (f *Frame) markCalled(what string, st *PState) {
	ex := f.ex
	k := ex.mustCallIdx(what)
	if k < 0 {
		return
	}
	hs := ArrS(SInt, SBool)
	ex.setH(st, mustCallHeap, hs, sto(ex.H(st, mustCallHeap, hs), fmt.Sprint(k), "true"))
}

// mustCallObligations: at every return, each listed function has been called on the path that got there.
func (f *Frame) mustCallObligations(ct *Contract, entry *PState, rets []retInfo) {
	ex := f.ex
	hs := ArrS(SInt, SBool)
	k := 0
	for _, mc := range ct.MustCall {
		for _, n := range strings.Fields(strings.ReplaceAll(mc.Src, ",", " ")) {
			k++
			var goals []string
			for _, r := range rets {
				goals = append(goals, implies(r.st.reach, sel(ex.H(r.st, mustCallHeap, hs), fmt.Sprint(k))))
			}
			tag := mc.Tag
			if tag == "" {
				tag = "mustcall"
			}
			ex.vc.AddObligation(&Obligation{Name: fmt.Sprintf("%s/%s/mustcall[%s]", tag, ex.oblPrefix, n), Tag: tag, Kind: "mustcall", Func: ex.top.String(),
				Goal: and(goals...), Desc: fmt.Sprintf("every path that reaches a return has called %s (a hook that is skipped on some path silently drops its block-level duty)", n)})
		}
	}
}
