package main

import (
	"flag"
	"fmt"
	"os"
	"runtime"
	"sort"
	"strings"
	"time"
)

func main() {
	if len(os.Args) < 2 {
		fmt.Fprintln(os.Stderr, "usage: govc <dev|check> [flags]")
		os.Exit(2)
	}
	switch os.Args[1] {
	case "dev":
		devCmd(os.Args[2:])
	case "fieldwrites":
		fieldWritesCmd(os.Args[2:])
	case "check":
		os.Exit(checkCmd(os.Args[2:]))
	case "solve-batch":
		var w int
		fmt.Sscan(os.Args[3], &w)
		solveBatch(os.Args[2], w)
	default:
		fmt.Fprintln(os.Stderr, "unknown command", os.Args[1])
		os.Exit(2)
	}
}

// devCmd: verify selected functions and print every obligation with its verdict (development aid).
func devCmd(argv []string) {
	fs := flag.NewFlagSet("dev", flag.ExitOnError)
	repo := fs.String("repo", "/repo", "repository root")
	pkgs := fs.String("pkgs", "./storage", "comma separated package patterns")
	only := fs.String("func", "", "substring filter on contract targets")
	timeout := fs.Int("t", 10, "solver timeout (s)")
	dump := fs.String("dump", "", "write the query of the obligation whose name contains this string to /tmp/govc_dump.smt2")
	verbose := fs.Bool("v", false, "print notes")
	aimf := fs.Bool("aim", false, "verify contracts that have an aimcheck clause in aim mode (C07)")
	tagf := fs.String("tag", "", "only obligations whose tag has this prefix (cover/canary always)")
	fs.Parse(argv)
	t0 := time.Now()
	P, err := LoadProgram(*repo, strings.Split(*pkgs, ","))
	if err != nil {
		fmt.Fprintln(os.Stderr, "load:", err)
		os.Exit(2)
	}
	if err := P.LoadContracts(); err != nil {
		fmt.Fprintln(os.Stderr, "contracts:", err)
		os.Exit(2)
	}
	if *aimf {
		P.aimOn = func(string) bool { return true }
	}
	fmt.Printf("loaded in %.1fs; %d contracts\n", time.Since(t0).Seconds(), len(P.contracts))
	var frs []*FuncResult
	keys := []string{}
	for k := range P.contracts {
		keys = append(keys, k)
	}
	sort.Strings(keys)
	for _, k := range keys {
		ct := P.contracts[k]
		if ct.Trusted && !(*aimf && ct.AimCheck != nil) {
			continue
		}
		if *aimf && ct.AimCheck == nil {
			continue
		}
		if *only != "" && !strings.Contains(ct.Target, *only) {
			continue
		}
		inPkgs := false
		for _, pat := range strings.Split(*pkgs, ",") {
			q := strings.TrimSuffix(strings.TrimPrefix(pat, "./"), "/...")
			if strings.HasSuffix(ct.Pkg, "/"+q) || (strings.HasSuffix(pat, "/...") && strings.Contains(ct.Pkg, "/"+q+"/")) {
				inPkgs = true
			}
		}
		if !inPkgs {
			continue
		}
		fn := P.FindFunc(ct)
		if fn == nil {
			fmt.Printf("MISSING %s\n", k)
			continue
		}
		fr := P.VerifyFunc(ct, fn)
		if fr.Err != "" {
			fmt.Printf("ERROR %s: %s\n", ct.Target, fr.Err)
			continue
		}
		frs = append(frs, fr)
	}
	if *only == "" || strings.Contains("theorem", *only) {
		inDev := func(tag string) bool { return true }
		if tf := P.TheoremObligations(inDev); tf != nil {
			// only the theorems of the packages asked for
			var keep []*Obligation
			for _, o := range tf.Obls {
				th := P.theorems[o.Func]
				for _, pat := range strings.Split(*pkgs, ",") {
					q := strings.TrimSuffix(strings.TrimPrefix(pat, "./"), "/...")
					if th != nil && strings.HasSuffix(th.Pkg, "/"+q) {
						keep = append(keep, o)
					}
				}
			}
			if len(keep) > 0 {
				tf.Obls = keep
				tf.Contract = &Contract{Target: "theorems"}
				frs = append(frs, tf)
			}
		}
	}
	prelude := P.reg.Prelude()
	pick := func(o *Obligation) bool {
		if *tagf == "" {
			return true
		}
		return strings.HasPrefix(o.Tag, *tagf) || o.Tag == "cover" || o.Tag == "canary"
	}
	SolveAll(func(*FuncResult) string { return prelude }, frs, pick, *timeout, runtime.NumCPU())
	bad := 0
	for _, fr := range frs {
		fmt.Printf("== %s  (%d lines of VC)\n", fr.Contract.Target, len(fr.VC.lines))
		for _, o := range fr.Obls {
			if o.Result == nil {
				continue
			}
			verdict := o.Result.Status
			ok := verdict == "unsat"
			if o.IsCover || o.Canary {
				ok = verdict != "unsat" // vacuity guards: quantified contexts often answer unknown
			}
			mark := "ok  "
			if !ok {
				mark = "FAIL"
				if o.IsCover && o.Kind == "cover" && strings.Contains(o.Name, "post-antecedent") {
					mark = "vac "
				} else {
					bad++
				}
			}
			fmt.Printf("  %s %-8s %5dms %-10s %s  %s\n", mark, verdict, o.Result.Ms, o.Result.Backend, o.Name, o.Pos)
			if !ok && *verbose {
				fmt.Printf("       %s\n", o.Desc)
				if verdict != "sat" && verdict != "timeout" {
					fmt.Printf("       solver: %s\n", trunc(strings.ReplaceAll(o.Result.Output, "\n", " | "), 300))
				}
			}
			if *dump != "" && strings.Contains(o.Name, *dump) {
				dp := fmt.Sprintf("/tmp/govc_dump_%d.smt2", os.Getpid())
				os.WriteFile(dp, []byte(fr.VC.Query(prelude, o)), 0o644)
				fmt.Printf("       query of %s dumped to %s (other workers share /tmp: the name is per process)\n", o.Name, dp)
			}
		}
		for _, n := range fr.VC.droppedInvs {
			fmt.Println("  DROPPED:", n)
		}
		if *verbose {
			for _, n := range fr.VC.notes {
				fmt.Println("  note:", n)
			}
			for _, n := range fr.VC.unsupported {
				fmt.Println("  unsupported:", n)
			}
			for _, n := range sortedKeys(fr.VC.unverifiedCallees) {
				fmt.Println("  unverified callee:", n)
			}
			for _, n := range sortedKeys(fr.VC.inlined) {
				fmt.Println("  inlined:", n)
			}
		}
	}
	fmt.Printf("%d failing; total %.1fs\n", bad, time.Since(t0).Seconds())
}
