package main

// Contract language: lexer, expression parser, contract file parser.
//
// Contracts live in comment-only files (verif_contracts.go, build tag verif)
// as lines starting with "//@". See DESIGN.md section 2.3.

import (
	"fmt"
	"os"
	"strings"
	"unicode"
)

// ---------------------------------------------------------------- lexer

type tok struct {
	k string // ident num str op eof
	v string
}

func lex(src string) ([]tok, error) {
	var out []tok
	i := 0
	for i < len(src) {
		c := src[i]
		switch {
		case c == ' ' || c == '\t' || c == '\n' || c == '\r':
			i++
		case unicode.IsLetter(rune(c)) || c == '_' || c == '$' || c == '@':
			j := i + 1
			for j < len(src) && (unicode.IsLetter(rune(src[j])) || unicode.IsDigit(rune(src[j])) || src[j] == '_' || src[j] == '$') {
				j++
			}
			out = append(out, tok{"ident", src[i:j]})
			i = j
		case unicode.IsDigit(rune(c)):
			j := i + 1
			for j < len(src) && (unicode.IsDigit(rune(src[j])) || src[j] == '_') {
				j++
			}
			out = append(out, tok{"num", strings.ReplaceAll(src[i:j], "_", "")})
			i = j
		case c == '"':
			j := i + 1
			var b strings.Builder
			for j < len(src) && src[j] != '"' {
				if src[j] == '\\' && j+1 < len(src) {
					j++
				}
				b.WriteByte(src[j])
				j++
			}
			if j >= len(src) {
				return nil, fmt.Errorf("unterminated string")
			}
			out = append(out, tok{"str", b.String()})
			i = j + 1
		default:
			ops := []string{"==>", "<==>", ":=", "::", "==", "!=", "<=", ">=", "&&", "||", "+", "-", "*", "/", "%", "<", ">", "!", "(", ")", "[", "]", "{", "}", ",", ".", ":", "?", "="}
			matched := false
			if strings.HasPrefix(src[i:], "<==>") {
				out = append(out, tok{"op", "<==>"})
				i += 4
				continue
			}
			for _, o := range ops {
				if strings.HasPrefix(src[i:], o) {
					out = append(out, tok{"op", o})
					i += len(o)
					matched = true
					break
				}
			}
			if !matched {
				return nil, fmt.Errorf("unexpected character %q in %q", c, src)
			}
		}
	}
	out = append(out, tok{"eof", ""})
	return out, nil
}

// ---------------------------------------------------------------- AST

type SExpr struct {
	Op   string // var num str nil true false call field index update unop binop forall exists old deref
	Name string
	Args []*SExpr
	Bind []Binder
	Pats [][]*SExpr // explicit triggers of a quantifier: forall x T :: { t1, t2 } { t3 } body
}
type Binder struct {
	Name string
	Type string
}

func (e *SExpr) String() string {
	switch e.Op {
	case "var", "num":
		return e.Name
	case "str":
		return fmt.Sprintf("%q", e.Name)
	case "call":
		as := []string{}
		for _, a := range e.Args {
			as = append(as, a.String())
		}
		return e.Name + "(" + strings.Join(as, ", ") + ")"
	case "field":
		return e.Args[0].String() + "." + e.Name
	case "index":
		return e.Args[0].String() + "[" + e.Args[1].String() + "]"
	case "update":
		return e.Args[0].String() + "[" + e.Args[1].String() + " := " + e.Args[2].String() + "]"
	case "unop":
		return e.Name + e.Args[0].String()
	case "binop":
		return "(" + e.Args[0].String() + " " + e.Name + " " + e.Args[1].String() + ")"
	case "forall", "exists":
		bs := []string{}
		for _, b := range e.Bind {
			bs = append(bs, b.Name+" "+b.Type)
		}
		return e.Op + " " + strings.Join(bs, ", ") + " :: " + e.Args[0].String()
	case "cond":
		return "(" + e.Args[0].String() + " ? " + e.Args[1].String() + " : " + e.Args[2].String() + ")"
	}
	return e.Op
}

type parser struct {
	toks []tok
	p    int
}

func (p *parser) peek() tok { return p.toks[p.p] }
func (p *parser) next() tok { t := p.toks[p.p]; p.p++; return t }
func (p *parser) isOp(v string) bool {
	t := p.peek()
	return t.k == "op" && t.v == v
}
func (p *parser) accept(v string) bool {
	if p.isOp(v) {
		p.p++
		return true
	}
	return false
}
func (p *parser) expect(v string) error {
	if !p.accept(v) {
		return fmt.Errorf("expected %q, got %q", v, p.peek().v)
	}
	return nil
}

func ParseExpr(src string) (*SExpr, error) {
	toks, err := lex(src)
	if err != nil {
		return nil, err
	}
	p := &parser{toks: toks}
	e, err := p.parseExpr()
	if err != nil {
		return nil, fmt.Errorf("%v in %q", err, src)
	}
	if p.peek().k != "eof" {
		return nil, fmt.Errorf("trailing %q in %q", p.peek().v, src)
	}
	return e, nil
}

func (p *parser) parseExpr() (*SExpr, error) {
	t := p.peek()
	if t.k == "ident" && (t.v == "forall" || t.v == "exists") {
		p.next()
		var bs []Binder
		for {
			n := p.next()
			if n.k != "ident" {
				return nil, fmt.Errorf("binder name expected")
			}
			ty, err := p.parseTypeName()
			if err != nil {
				return nil, err
			}
			bs = append(bs, Binder{n.v, ty})
			if !p.accept(",") {
				break
			}
		}
		if err := p.expect("::"); err != nil {
			return nil, err
		}
		var pats [][]*SExpr
		for p.accept("{") {
			var group []*SExpr
			for {
				pe, err := p.parseExpr()
				if err != nil {
					return nil, err
				}
				group = append(group, pe)
				if !p.accept(",") {
					break
				}
			}
			if err := p.expect("}"); err != nil {
				return nil, err
			}
			pats = append(pats, group)
		}
		body, err := p.parseExpr()
		if err != nil {
			return nil, err
		}
		return &SExpr{Op: t.v, Bind: bs, Args: []*SExpr{body}, Pats: pats}, nil
	}
	return p.parseCond()
}

// type names in binders / declarations: ident, *T, []T, pkg.T, map[K]V, array[K]V
func (p *parser) parseTypeName() (string, error) {
	t := p.peek()
	if t.k == "op" && t.v == "*" {
		p.next()
		in, err := p.parseTypeName()
		return "*" + in, err
	}
	if t.k == "op" && t.v == "[" {
		p.next()
		if err := p.expect("]"); err != nil {
			return "", err
		}
		in, err := p.parseTypeName()
		return "[]" + in, err
	}
	if t.k != "ident" {
		return "", fmt.Errorf("type expected, got %q", t.v)
	}
	p.next()
	name := t.v
	if (name == "map" || name == "array") && p.isOp("[") {
		p.next()
		k, err := p.parseTypeName()
		if err != nil {
			return "", err
		}
		if err := p.expect("]"); err != nil {
			return "", err
		}
		v, err := p.parseTypeName()
		if err != nil {
			return "", err
		}
		return name + "[" + k + "]" + v, nil
	}
	if p.isOp(".") {
		p.next()
		n2 := p.next()
		if n2.k != "ident" {
			return "", fmt.Errorf("type name expected after '.'")
		}
		return name + "." + n2.v, nil
	}
	return name, nil
}

func (p *parser) parseCond() (*SExpr, error) {
	c, err := p.parseImpl()
	if err != nil {
		return nil, err
	}
	if p.accept("?") {
		a, err := p.parseCond()
		if err != nil {
			return nil, err
		}
		if err := p.expect(":"); err != nil {
			return nil, err
		}
		b, err := p.parseCond()
		if err != nil {
			return nil, err
		}
		return &SExpr{Op: "cond", Args: []*SExpr{c, a, b}}, nil
	}
	return c, nil
}

func (p *parser) parseImpl() (*SExpr, error) {
	l, err := p.parseOr()
	if err != nil {
		return nil, err
	}
	if p.accept("==>") {
		var r *SExpr
		t := p.peek()
		if t.k == "ident" && (t.v == "forall" || t.v == "exists") {
			r, err = p.parseExpr()
		} else {
			r, err = p.parseImpl()
		}
		if err != nil {
			return nil, err
		}
		return &SExpr{Op: "binop", Name: "==>", Args: []*SExpr{l, r}}, nil
	}
	if p.accept("<==>") {
		r, err := p.parseOr()
		if err != nil {
			return nil, err
		}
		return &SExpr{Op: "binop", Name: "<==>", Args: []*SExpr{l, r}}, nil
	}
	return l, nil
}

func (p *parser) parseBin(ops []string, sub func() (*SExpr, error), chain bool) (*SExpr, error) {
	l, err := sub()
	if err != nil {
		return nil, err
	}
	for {
		found := ""
		for _, o := range ops {
			if p.isOp(o) {
				found = o
				break
			}
		}
		if found == "" {
			return l, nil
		}
		p.next()
		r, err := sub()
		if err != nil {
			return nil, err
		}
		l = &SExpr{Op: "binop", Name: found, Args: []*SExpr{l, r}}
		if !chain {
			return l, nil
		}
	}
}

func (p *parser) parseOr() (*SExpr, error) {
	return p.parseBin([]string{"||"}, p.parseAnd, true)
}
func (p *parser) parseAnd() (*SExpr, error) {
	return p.parseBin([]string{"&&"}, p.parseCmp, true)
}
func (p *parser) parseCmp() (*SExpr, error) {
	return p.parseBin([]string{"==", "!=", "<=", ">=", "<", ">"}, p.parseAdd, false)
}
func (p *parser) parseAdd() (*SExpr, error) {
	return p.parseBin([]string{"+", "-"}, p.parseMul, true)
}
func (p *parser) parseMul() (*SExpr, error) {
	return p.parseBin([]string{"*", "/", "%"}, p.parseUnary, true)
}

func (p *parser) parseUnary() (*SExpr, error) {
	if p.accept("!") {
		e, err := p.parseUnary()
		if err != nil {
			return nil, err
		}
		return &SExpr{Op: "unop", Name: "!", Args: []*SExpr{e}}, nil
	}
	if p.accept("-") {
		e, err := p.parseUnary()
		if err != nil {
			return nil, err
		}
		return &SExpr{Op: "unop", Name: "-", Args: []*SExpr{e}}, nil
	}
	if p.accept("*") {
		e, err := p.parseUnary()
		if err != nil {
			return nil, err
		}
		return &SExpr{Op: "unop", Name: "*", Args: []*SExpr{e}}, nil
	}
	return p.parsePostfix()
}

func (p *parser) parsePostfix() (*SExpr, error) {
	e, err := p.parsePrimary()
	if err != nil {
		return nil, err
	}
	for {
		switch {
		case p.accept("."):
			n := p.next()
			if n.k != "ident" {
				return nil, fmt.Errorf("field name expected")
			}
			e = &SExpr{Op: "field", Name: n.v, Args: []*SExpr{e}}
		case p.accept("["):
			i, err := p.parseExpr()
			if err != nil {
				return nil, err
			}
			if p.accept(":=") {
				v, err := p.parseExpr()
				if err != nil {
					return nil, err
				}
				if err := p.expect("]"); err != nil {
					return nil, err
				}
				e = &SExpr{Op: "update", Args: []*SExpr{e, i, v}}
			} else {
				if err := p.expect("]"); err != nil {
					return nil, err
				}
				e = &SExpr{Op: "index", Args: []*SExpr{e, i}}
			}
		default:
			return e, nil
		}
	}
}

func (p *parser) parsePrimary() (*SExpr, error) {
	t := p.next()
	switch t.k {
	case "num":
		return &SExpr{Op: "num", Name: t.v}, nil
	case "str":
		return &SExpr{Op: "str", Name: t.v}, nil
	case "ident":
		if p.isOp("(") {
			p.next()
			var args []*SExpr
			if !p.isOp(")") {
				for {
					a, err := p.parseExpr()
					if err != nil {
						return nil, err
					}
					args = append(args, a)
					if !p.accept(",") {
						break
					}
				}
			}
			if err := p.expect(")"); err != nil {
				return nil, err
			}
			return &SExpr{Op: "call", Name: t.v, Args: args}, nil
		}
		return &SExpr{Op: "var", Name: t.v}, nil
	case "op":
		if t.v == "(" {
			e, err := p.parseExpr()
			if err != nil {
				return nil, err
			}
			if err := p.expect(")"); err != nil {
				return nil, err
			}
			return e, nil
		}
	}
	return nil, fmt.Errorf("unexpected token %q", t.v)
}

// ---------------------------------------------------------------- contracts

type Clause struct {
	Tag     string
	Expr    *SExpr
	Src     string
	Trusted bool // trustyields: assumed at call sites, not an obligation on the iterator's body
}

type Contract struct {
	Pkg      string // import path
	Target   string // "(*State).Get", "NewState", "txDeliverer$1"
	Trusted  bool   // "assume func": contract is assumed, body not verified
	View     string // "func F view <name>": an extra proof of the same body with its own invariants; callers never see it
	CalleeTrusts map[string][]Clause // calleetrusts <callee> :: <expr>: extra trusted postcondition of a callee, in this body only
	Requires []Clause
	Ensures  []Clause
	Trusts   []Clause // postconditions assumed by callers and NOT checked on the body (per-clause trust)
	Modifies []Clause // location expressions; Src=="everything" => havoc all
	ModAll   bool
	Invs     map[string][]Clause // "loop1" / "iter1" -> invariants
	Safety   string              // tag under which panic-freedom obligations are generated ("" = none)
	Implements string            // interface name (same package) whose method contract is inherited
	Inline   bool                // never use contract at call sites; always inline (rare)
	Lemmas   []Clause
	File     string
	Line     int
	Props    []string
	Yields   []Clause // iterator: facts about each yielded tuple (names y0,y1,...)
	NoInline bool
	Expands  []string
	ModNothing bool
	Extern   bool // contract on a function/interface of a dependency (key = full name)
	AimReq, AimEns, AimClaims []Clause // clauses tagged with the aimcheck property: only used in aim mode
	AimInvs map[string][]Clause
	MustCall []Clause // aim mode: functions (name suffixes) that are called on every path that reaches a return
	TrustFrame bool // `trustframe`: the modifies clause is assumed by callers and not checked on the body
	LongLived []Clause // root types (pkg.Type) of the long-lived object graph for `maywrite`
	MayWrite  []Clause // allow-list: the only fields of long-lived struct types the function may write (call graph)
	NoWrite []Clause // call-graph frame: fields (pkg.Type.field) of objects it did not allocate that the function never writes
	AimAlso []Clause // other State objects (never touched by CheckTx) that may be used directly
	AimExempt []string // store types (pkg.Type) whose aim is not the deliver state by design
	AimExemptWhy string
	IterTag  string // tag of the `iterator` line (obligations of a proved iterator: iter-stop)
	OpaqueArith bool // products/quotients of two non-literal operands become uninterpreted (sign facts only) in this body's queries
	DynPure  bool // dynamic calls without static callee in this body are assumed to modify nothing
	FrameTag string
	Updates  []GhostUpdate // ghost assignments executed at every return (model fields only)
	Exports  []Clause      // Validate only: facts over `raw` (the RawTx), `sigs` (the signatures) and `ctx`, proved as `result0 ==> fact` and
	                       // assumed in the same type's ProcessCheck/ProcessDeliver/ProcessFee under the validated token
	AimCheck *Clause       // C07 type-state: at every direct call of a method of a re-aimable store (a type with WithState and a *storage.State
	                       // field) inside this body the store's state pointer must equal this expression (the deliver state)
	Assumes  []Clause      // environment assumptions: assumed at entry of the body, NOT checked at call sites, listed in the trusted base
	Claims   []Clause      // postconditions checked on the body but never assumed by callers (used for clauses that are known findings)
	Grants   []Clause      // interface methods: history tokens assumed at call sites, not checked on implementations
	Forbids  []Clause      // interface methods: functions no implementation may reach (Src = name patterns)
	Iterator bool          // the function calls its callback argument zero or more times (loop at the call site)
	Count    *SExpr        // number of yields when the callback never stops the iteration
}

type GhostUpdate struct {
	Target *SExpr // model field application: name(x)
	Value  *SExpr
	Src    string
}

type IfaceContract struct {
	Pkg     string
	Name    string
	Methods map[string]*Contract
}

type Theorem struct {
	Pkg, Name, Tag, File string
	Line                 int
}

type GhostFunc struct {
	Pkg    string
	Name   string
	Params []Binder
	Ret    string
	Body   *SExpr // nil => uninterpreted
	Src    string
}

type ModelField struct {
	NoDispatch bool // never read through a representation clause chosen by dynamic type
	Pkg   string
	Name  string
	Owner string // Go type the field is declared on (informational)
	Type  string // value type
}

type Repr struct {
	Pkg   string
	Name  string
	Self  string // binder name
	Type  string // "*sessionCache"
	Index *Binder
	Body  *SExpr
	Src   string
}

type Axiom struct {
	Pkg  string
	Tag  string
	Expr *SExpr
	Src  string
}

type Footprint struct {
	Pkg  string
	Name string
	Self string
	Type string
	Locs []*SExpr
}

type ContractFile struct {
	Footprints []*Footprint
	Pkg       string
	Funcs     []*Contract
	Ifaces    []*IfaceContract
	Ghosts    []*GhostFunc
	Models    []*ModelField
	Reprs     []*Repr
	Axioms    []*Axiom
	Impls     [][2]string // (concrete type, interface)
	Consts    []string
	Theorems  []*Theorem
}

// splitTag splits "expr   // C02.sign" into (expr, tag).
func splitTag(s string) (string, string) {
	if i := strings.LastIndex(s, "//"); i >= 0 {
		return strings.TrimSpace(s[:i]), strings.TrimSpace(s[i+2:])
	}
	return strings.TrimSpace(s), ""
}

// ParseContractFile reads one verif_contracts.go file.
func ParseContractFile(path, pkg string) (*ContractFile, error) {
	data, err := os.ReadFile(path)
	if err != nil {
		return nil, err
	}
	cf := &ContractFile{Pkg: pkg}
	// join continuation lines: a line that starts with "//@" followed by >= 6 spaces of indent
	// and does not begin with a keyword continues the previous clause.
	type ln struct {
		s string
		n int
	}
	var lines []ln
	for i, raw := range strings.Split(string(data), "\n") {
		t := strings.TrimSpace(raw)
		if !strings.HasPrefix(t, "//@") {
			continue
		}
		body := strings.TrimPrefix(t, "//@")
		lines = append(lines, ln{body, i + 1})
	}
	keywords := []string{"trustframe", "trustyields", "calleetrusts", "longlived", "maywrite", "trusts", "mustcall", "theorem", "opaque-arith", "nowrite", "aimalso", "aimexempt", "aimcheck", "assumes", "exports", "dyncalls", "claims", "grants", "forbids", "footprint", "iterator", "count", "update", "func", "assume", "interface", "method", "requires", "ensures", "modifies", "invariant", "safety", "ghost", "model", "repr", "axiom", "implements", "lemma", "yields", "property", "noinline", "const", "expands", "inline"}
	isKw := func(s string) bool {
		f := strings.Fields(s)
		if len(f) == 0 {
			return false
		}
		for _, k := range keywords {
			if f[0] == k {
				return true
			}
		}
		return false
	}
	var joined []ln
	for _, l := range lines {
		if strings.TrimSpace(l.s) == "" {
			continue
		}
		if !isKw(l.s) && len(joined) > 0 {
			// continuation: keep the first tag seen
			prev := joined[len(joined)-1]
			pe, pt := splitTag(prev.s)
			ce, ct := splitTag(l.s)
			if pt == "" {
				pt = ct
			}
			s := pe + " " + ce
			if pt != "" {
				s += " // " + pt
			}
			joined[len(joined)-1] = ln{s, prev.n}
			continue
		}
		joined = append(joined, l)
	}

	var cur *Contract
	var curIface *IfaceContract
	fail := func(l ln, err error) error { return fmt.Errorf("%s:%d: %v", path, l.n, err) }
	for _, l := range joined {
		f := strings.Fields(l.s)
		kw := f[0]
		rest := strings.TrimSpace(strings.TrimPrefix(strings.TrimSpace(l.s), kw))
		switch kw {
		case "func", "assume":
			trusted := false
			if kw == "assume" {
				trusted = true
				rest = strings.TrimSpace(strings.TrimPrefix(rest, "func"))
			}
			externMark := false
			if trusted && strings.HasPrefix(rest, "extern ") {
				// assume extern func strconv.ParseUint — dependency with a single-segment package path
				externMark = true
				rest = strings.TrimSpace(strings.TrimPrefix(strings.TrimSpace(strings.TrimPrefix(rest, "extern ")), "func"))
			}
			name, _ := splitTag(rest)
			view := ""
			if i := strings.Index(name, " view "); i > 0 {
				view = strings.TrimSpace(name[i+6:])
				name = strings.TrimSpace(name[:i])
			}
			cur = &Contract{Pkg: pkg, Target: name, Trusted: trusted, View: view, Invs: map[string][]Clause{}, File: path, Line: l.n}
			if strings.Contains(name, "/") || externMark {
				// function of a dependency, given by its full name, e.g.
				// github.com/ethereum/go-ethereum/core.(*GasPool).SubGas — always assumed
				cur.Extern = true
				cur.Trusted = true
			}
			cf.Funcs = append(cf.Funcs, cur)
			curIface = nil
		case "interface":
			name, _ := splitTag(rest)
			curIface = &IfaceContract{Pkg: pkg, Name: name, Methods: map[string]*Contract{}}
			cf.Ifaces = append(cf.Ifaces, curIface)
			cur = nil
		case "method":
			if curIface == nil {
				return nil, fail(l, fmt.Errorf("method outside interface"))
			}
			name, _ := splitTag(rest)
			cur = &Contract{Pkg: pkg, Target: curIface.Name + "." + name, Invs: map[string][]Clause{}, File: path, Line: l.n}
			curIface.Methods[name] = cur
		case "requires", "ensures", "lemma", "yields", "trustyields", "claims", "exports", "assumes", "trusts":
			if cur == nil {
				return nil, fail(l, fmt.Errorf("%s outside func", kw))
			}
			es, tag := splitTag(rest)
			e, err := ParseExpr(es)
			if err != nil {
				return nil, fail(l, err)
			}
			c := Clause{Tag: tag, Expr: e, Src: es}
			switch kw {
			case "requires":
				cur.Requires = append(cur.Requires, c)
			case "ensures":
				cur.Ensures = append(cur.Ensures, c)
			case "trusts":
				cur.Trusts = append(cur.Trusts, c)
			case "claims":
				cur.Claims = append(cur.Claims, c)
			case "exports":
				cur.Exports = append(cur.Exports, c)
			case "assumes":
				cur.Assumes = append(cur.Assumes, c)
			case "lemma":
				cur.Lemmas = append(cur.Lemmas, c)
			case "yields":
				cur.Yields = append(cur.Yields, c)
			case "trustyields":
				c.Trusted = true
				cur.Yields = append(cur.Yields, c)
			}
		case "calleetrusts":
			if cur == nil {
				return nil, fail(l, fmt.Errorf("calleetrusts outside func"))
			}
			es, tag := splitTag(rest)
			i := strings.Index(es, "::")
			if i < 0 {
				return nil, fail(l, fmt.Errorf("calleetrusts <callee> :: <expr>"))
			}
			callee := strings.ReplaceAll(strings.TrimSpace(es[:i]), " ", "")
			body := strings.TrimSpace(es[i+2:])
			isMod := strings.HasPrefix(body, "modifies ")
			if isMod {
				// calleetrusts F :: modifies <loc>: the callee's frame is widened by a (ghost) location in this body
				body = strings.TrimSpace(strings.TrimPrefix(body, "modifies "))
			}
			e, err := ParseExpr(body)
			if err != nil {
				return nil, fail(l, err)
			}
			if cur.CalleeTrusts == nil {
				cur.CalleeTrusts = map[string][]Clause{}
			}
			cur.CalleeTrusts[callee] = append(cur.CalleeTrusts[callee], Clause{Tag: tag, Expr: e, Src: strings.TrimSpace(es[i+2:]), Trusted: isMod})
		case "modifies":
			if cur == nil {
				return nil, fail(l, fmt.Errorf("modifies outside func"))
			}
			es, tag := splitTag(rest)
			if es == "everything" {
				cur.ModAll = true
				continue
			}
			if es == "nothing" {
				cur.ModNothing = true
				cur.FrameTag = tag
				continue
			}
			for _, part := range splitTop(es, ',') {
				e, err := ParseExpr(part)
				if err != nil {
					return nil, fail(l, err)
				}
				cur.Modifies = append(cur.Modifies, Clause{Tag: tag, Expr: e, Src: part})
			}
		case "invariant":
			if cur == nil {
				return nil, fail(l, fmt.Errorf("invariant outside func"))
			}
			// invariant loop1: expr
			i := strings.Index(rest, ":")
			if i < 0 {
				return nil, fail(l, fmt.Errorf("invariant needs 'loopN:' key"))
			}
			key := strings.TrimSpace(rest[:i])
			es, tag := splitTag(rest[i+1:])
			e, err := ParseExpr(es)
			if err != nil {
				return nil, fail(l, err)
			}
			cur.Invs[key] = append(cur.Invs[key], Clause{Tag: tag, Expr: e, Src: es})
		case "grants":
			if cur == nil {
				return nil, fail(l, fmt.Errorf("grants outside func"))
			}
			es, tag := splitTag(rest)
			e, err := ParseExpr(es)
			if err != nil {
				return nil, fail(l, err)
			}
			cur.Grants = append(cur.Grants, Clause{Tag: tag, Expr: e, Src: es})
		case "forbids":
			if cur == nil {
				return nil, fail(l, fmt.Errorf("forbids outside func"))
			}
			es, tag := splitTag(rest)
			cur.Forbids = append(cur.Forbids, Clause{Tag: tag, Src: es})
		case "aimcheck":
			if cur == nil {
				return nil, fail(l, fmt.Errorf("aimcheck outside func"))
			}
			es, tag := splitTag(rest)
			e, err := ParseExpr(es)
			if err != nil {
				return nil, fail(l, err)
			}
			cur.AimCheck = &Clause{Tag: tag, Expr: e, Src: es}
		case "mustcall":
			if cur == nil {
				return nil, fail(l, fmt.Errorf("mustcall outside func"))
			}
			es, tag := splitTag(rest)
			cur.MustCall = append(cur.MustCall, Clause{Tag: tag, Src: es})
		case "trustframe":
			if cur == nil {
				return nil, fail(l, fmt.Errorf("trustframe outside func"))
			}
			cur.TrustFrame = true
		case "longlived", "maywrite":
			if cur == nil {
				return nil, fail(l, fmt.Errorf("%s outside func", kw))
			}
			es, tag := splitTag(rest)
			if kw == "longlived" {
				cur.LongLived = append(cur.LongLived, Clause{Tag: tag, Src: es})
			} else {
				cur.MayWrite = append(cur.MayWrite, Clause{Tag: tag, Src: es})
			}
		case "nowrite":
			if cur == nil {
				return nil, fail(l, fmt.Errorf("nowrite outside func"))
			}
			es, tag := splitTag(rest)
			cur.NoWrite = append(cur.NoWrite, Clause{Tag: tag, Src: es})
		case "aimalso":
			if cur == nil {
				return nil, fail(l, fmt.Errorf("aimalso outside func"))
			}
			es, why := splitTag(rest)
			e, err := ParseExpr(es)
			if err != nil {
				return nil, fail(l, err)
			}
			cur.AimAlso = append(cur.AimAlso, Clause{Tag: why, Expr: e, Src: es})
		case "aimexempt":
			if cur == nil {
				return nil, fail(l, fmt.Errorf("aimexempt outside func"))
			}
			es, why := splitTag(rest)
			for _, tn := range strings.Split(es, ",") {
				if tn = strings.TrimSpace(tn); tn != "" {
					cur.AimExempt = append(cur.AimExempt, tn)
				}
			}
			cur.AimExemptWhy = why
		case "iterator":
			if cur != nil {
				cur.Iterator = true
				_, cur.IterTag = splitTag(rest)
			}
		case "count":
			if cur == nil {
				return nil, fail(l, fmt.Errorf("count outside func"))
			}
			es, _ := splitTag(rest)
			e, err := ParseExpr(es)
			if err != nil {
				return nil, fail(l, err)
			}
			cur.Count = e
		case "update":
			if cur == nil {
				return nil, fail(l, fmt.Errorf("update outside func"))
			}
			es, _ := splitTag(rest)
			k := strings.Index(es, ":=")
			if k < 0 {
				return nil, fail(l, fmt.Errorf("update needs ':='"))
			}
			te, err := ParseExpr(strings.TrimSpace(es[:k]))
			if err != nil {
				return nil, fail(l, err)
			}
			ve, err := ParseExpr(strings.TrimSpace(es[k+2:]))
			if err != nil {
				return nil, fail(l, err)
			}
			cur.Updates = append(cur.Updates, GhostUpdate{Target: te, Value: ve, Src: es})
		case "safety":
			if cur == nil {
				return nil, fail(l, fmt.Errorf("safety outside func"))
			}
			s, _ := splitTag(rest)
			cur.Safety = s
		case "opaque-arith":
			if cur != nil {
				cur.OpaqueArith = true
			}
		case "dyncalls":
			if cur != nil && strings.HasPrefix(rest, "pure") {
				cur.DynPure = true
			}
		case "noinline":
			if cur != nil {
				cur.NoInline = true
			}
		case "inline":
			if cur != nil {
				cur.Inline = true
			}
		case "expands":
			if cur != nil {
				s, _ := splitTag(rest)
				cur.Expands = append(cur.Expands, strings.Fields(s)...)
			}
		case "property":
			if cur != nil {
				s, _ := splitTag(rest)
				cur.Props = append(cur.Props, strings.Fields(strings.ReplaceAll(s, ",", " "))...)
			}
		case "implements":
			// inside a func block: implements Iface ; at top level: implements (*T) Iface
			s, _ := splitTag(rest)
			fs := strings.Fields(s)
			if len(fs) == 1 && cur != nil {
				cur.Implements = fs[0]
			} else if len(fs) == 2 {
				cf.Impls = append(cf.Impls, [2]string{fs[0], fs[1]})
			} else {
				return nil, fail(l, fmt.Errorf("bad implements"))
			}
		case "theorem":
			// theorem name   // tag  — the ghost macro `name` (bool) holds for all arguments: proved on its own, usable via by(name(args))
			s, tag := splitTag(rest)
			cf.Theorems = append(cf.Theorems, &Theorem{Pkg: pkg, Name: strings.TrimSpace(s), Tag: tag, File: path, Line: l.n})
			cur = nil
		case "ghost":
			// ghost func name(a T, b U) R [= expr]
			s, _ := splitTag(rest)
			s = strings.TrimSpace(strings.TrimPrefix(s, "func"))
			g, err := parseGhost(s, pkg)
			if err != nil {
				return nil, fail(l, err)
			}
			cf.Ghosts = append(cf.Ghosts, g)
			cur = nil
		case "model":
			// model name(OwnerType) ValueType
			s, _ := splitTag(rest)
			i, j := strings.Index(s, "("), strings.Index(s, ")")
			if i < 0 || j < i {
				return nil, fail(l, fmt.Errorf("bad model decl"))
			}
			mty := strings.TrimSpace(s[j+1:])
			nod := false
			if strings.HasSuffix(mty, " nodispatch") {
				nod = true
				mty = strings.TrimSpace(strings.TrimSuffix(mty, " nodispatch"))
			}
			cf.Models = append(cf.Models, &ModelField{Pkg: pkg, Name: strings.TrimSpace(s[:i]), Owner: strings.TrimSpace(s[i+1 : j]), Type: mty, NoDispatch: nod})
			cur = nil
		case "repr":
			// repr name(self *T) = expr    |   repr name(self *T)[k string] = expr
			s, _ := splitTag(rest)
			rp, err := parseRepr(s, pkg)
			if err != nil {
				return nil, fail(l, err)
			}
			cf.Reprs = append(cf.Reprs, rp)
			cur = nil
		case "footprint":
			// footprint name(self *T) = loc, loc, ...
			fs0, _ := splitTag(rest)
			i, j := strings.Index(fs0, "("), strings.Index(fs0, ")")
			k := strings.Index(fs0, "=")
			if i < 0 || j < i || k < j {
				return nil, fail(l, fmt.Errorf("bad footprint"))
			}
			bs, err := parseBinders(fs0[i+1 : j])
			if err != nil || len(bs) != 1 {
				return nil, fail(l, fmt.Errorf("footprint needs one binder"))
			}
			fp := &Footprint{Pkg: pkg, Name: strings.TrimSpace(fs0[:i]), Self: bs[0].Name, Type: bs[0].Type}
			for _, part := range splitTop(strings.TrimSpace(fs0[k+1:]), ',') {
				e, err := ParseExpr(part)
				if err != nil {
					return nil, fail(l, err)
				}
				fp.Locs = append(fp.Locs, e)
			}
			cf.Footprints = append(cf.Footprints, fp)
			cur = nil
		case "axiom":
			es, tag := splitTag(rest)
			e, err := ParseExpr(es)
			if err != nil {
				return nil, fail(l, err)
			}
			cf.Axioms = append(cf.Axioms, &Axiom{Pkg: pkg, Tag: tag, Expr: e, Src: es})
			cur = nil
		case "const":
			s, _ := splitTag(rest)
			cf.Consts = append(cf.Consts, strings.Fields(s)...)
		}
	}
	return cf, nil
}

func splitTop(s string, sep byte) []string {
	var out []string
	depth := 0
	last := 0
	for i := 0; i < len(s); i++ {
		switch s[i] {
		case '(', '[':
			depth++
		case ')', ']':
			depth--
		default:
			if s[i] == sep && depth == 0 {
				out = append(out, strings.TrimSpace(s[last:i]))
				last = i + 1
			}
		}
	}
	out = append(out, strings.TrimSpace(s[last:]))
	return out
}

func parseBinders(s string) ([]Binder, error) {
	var out []Binder
	s = strings.TrimSpace(s)
	if s == "" {
		return nil, nil
	}
	for _, part := range splitTop(s, ',') {
		fs := strings.Fields(part)
		if len(fs) < 2 {
			return nil, fmt.Errorf("bad binder %q", part)
		}
		out = append(out, Binder{fs[0], strings.Join(fs[1:], "")})
	}
	return out, nil
}

func parseGhost(s, pkg string) (*GhostFunc, error) {
	i := strings.Index(s, "(")
	if i < 0 {
		return nil, fmt.Errorf("bad ghost func")
	}
	// find matching paren
	depth, j := 0, -1
	for k := i; k < len(s); k++ {
		if s[k] == '(' {
			depth++
		}
		if s[k] == ')' {
			depth--
			if depth == 0 {
				j = k
				break
			}
		}
	}
	if j < 0 {
		return nil, fmt.Errorf("bad ghost func parens")
	}
	g := &GhostFunc{Pkg: pkg, Name: strings.TrimSpace(s[:i]), Src: s}
	bs, err := parseBinders(s[i+1 : j])
	if err != nil {
		return nil, err
	}
	g.Params = bs
	rest := strings.TrimSpace(s[j+1:])
	if k := strings.Index(rest, "="); k >= 0 && !strings.HasPrefix(rest[k:], "==") {
		g.Ret = strings.TrimSpace(rest[:k])
		e, err := ParseExpr(strings.TrimSpace(rest[k+1:]))
		if err != nil {
			return nil, err
		}
		g.Body = e
	} else {
		g.Ret = rest
	}
	return g, nil
}

func parseRepr(s, pkg string) (*Repr, error) {
	i, j := strings.Index(s, "("), strings.Index(s, ")")
	if i < 0 || j < i {
		return nil, fmt.Errorf("bad repr")
	}
	bs, err := parseBinders(s[i+1 : j])
	if err != nil || len(bs) != 1 {
		return nil, fmt.Errorf("repr needs one binder")
	}
	rp := &Repr{Pkg: pkg, Name: strings.TrimSpace(s[:i]), Self: bs[0].Name, Type: bs[0].Type, Src: s}
	rest := strings.TrimSpace(s[j+1:])
	if strings.HasPrefix(rest, "[") {
		k := strings.Index(rest, "]")
		ib, err := parseBinders(rest[1:k])
		if err != nil || len(ib) != 1 {
			return nil, fmt.Errorf("repr index binder")
		}
		rp.Index = &ib[0]
		rest = strings.TrimSpace(rest[k+1:])
	}
	if !strings.HasPrefix(rest, "=") {
		return nil, fmt.Errorf("repr needs '='")
	}
	e, err := ParseExpr(strings.TrimSpace(rest[1:]))
	if err != nil {
		return nil, err
	}
	rp.Body = e
	return rp, nil
}
