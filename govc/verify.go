package main

// Verification of one function against its contract.

import (
	"fmt"
	"go/types"
	"strings"

	"golang.org/x/tools/go/ssa"
)

type FuncResult struct {
	Contract *Contract
	Fn       *ssa.Function
	VC       *VC
	Err      string // outside subset / spec error
	Prelude  string
	Obls     []*Obligation
	IfaceOf  string
}

func (P *Program) pkgOfFn(fn *ssa.Function, ct *Contract) *types.Package {
	if fn.Pkg != nil {
		return fn.Pkg.Pkg
	}
	return P.typesPkg(ct.Pkg)
}

// mergedContract adds the clauses inherited from an interface method contract.
func (P *Program) mergedContract(ct *Contract) (*Contract, *Contract) {
	if ct.Implements == "" {
		return ct, nil
	}
	ic := P.ifaces[ct.Pkg+"."+ct.Implements]
	if ic == nil && strings.Contains(ct.Implements, ".") {
		// qualified: pkgname.Iface
		k := strings.Index(ct.Implements, ".")
		pn, in := ct.Implements[:k], ct.Implements[k+1:]
		for key, cand := range P.ifaces {
			if cand.Name == in && (strings.HasSuffix(cand.Pkg, "/"+pn) || cand.Pkg == pn) {
				_ = key
				ic = cand
			}
		}
	}
	if ic == nil {
		return ct, nil
	}
	// method name
	t := normTarget(ct.Target)
	mn := t[strings.LastIndex(t, ".")+1:]
	im := ic.Methods[mn]
	if im == nil {
		return ct, nil
	}
	return ct, im
}

// VerifyFunc generates the obligations of fn under contract ct.
func (P *Program) VerifyFunc(ct *Contract, fn *ssa.Function) (res *FuncResult) {
	res = &FuncResult{Contract: ct, Fn: fn}
	vc := NewVC(P.reg)
	res.VC = vc
	ex := &Exec{P: P, vc: vc, reg: P.reg, top: fn, safetyTag: ct.Safety, hsorts: heapSorts{}, expands: map[string]bool{}, reprCache: map[string]string{}, maxInline: 400}
	ex.oblPrefix = shortPkg(ct.Pkg) + "." + ct.Target
	// representation clauses are expanded for the receiver's own type and for types listed in `expands`
	if fn.Signature.Recv() != nil {
		rt := fn.Signature.Recv().Type()
		name := types.TypeString(rt, func(p *types.Package) string { return "" })
		ex.expands[name] = true
		if !strings.HasPrefix(name, "*") {
			ex.expands["*"+name] = true
		}
	}
	// representation clauses of the function's own package are visible (the package is the abstraction boundary)
	for _, rs := range P.reprs {
		for _, r := range rs {
			if r.Pkg == ct.Pkg {
				ex.expands[r.Type] = true
			}
		}
	}
	for _, e := range ct.Expands {
		ex.expands[e] = true
	}
	defer func() {
		if r := recover(); r != nil {
			switch e := r.(type) {
			case *unsupportedErr:
				res.Err = "outside subset: " + e.msg
			case *specErr:
				res.Err = "contract error: " + e.msg
			default:
				panic(r)
			}
			res.Obls = nil
		}
	}()
	st := &PState{reach: "true", heap: map[string]string{}, epoch: 0}
	st.brk = vc.Declare("brk0", SInt)
	vc.Assume("(>= brk0 0)")
	f := ex.newFrame(fn)
	f.contract = ct
	// parameters
	var args []Val
	for _, p := range fn.Params {
		v := ex.havocVal("p_"+p.Name(), p.Type())
		args = append(args, v)
		f.assumeAllocated(v.T, p.Type(), st, 0)
	}
	f.params = args
	// free variables of a closure under contract: arbitrary cells (captured by reference)
	for _, fv := range fn.FreeVars {
		v := ex.havocVal("fv_"+fv.Name(), fv.Type())
		f.freeVars = append(f.freeVars, v)
		f.assumeAllocated(v.T, fv.Type(), st, 0)
		ex.vc.Assume(not(eq(v.T, "0")))
		f.vals[fv] = v
		f.names[fv.Name()] = append(f.names[fv.Name()], fv)
	}
	ex.entry = st.clone()
	entry := ex.entry
	pkg := P.pkgOfFn(fn, ct)
	vars := f.specVarsFor(ct, fn, fn.Signature, args, false)
	_, im := P.mergedContract(ct)
	// axioms
	for _, ax := range P.axioms {
		// an axiom is in force in its own package and in packages that import it
		if ax.Pkg != ct.Pkg && !importsPkg(pkg, ax.Pkg) {
			continue
		}
		aenv := &SpecEnv{ex: ex, vars: map[string]Val{}, stypes: map[string]*SType{}, cur: entry, old: entry, pkg: P.typesPkg(ax.Pkg), what: "axiom " + ax.Tag}
		// only added to queries that mention one of the axiom's spec functions
		vc.AddCondAxiom(aenv.boolE(ax.Expr), "axiom "+shortPkg(ax.Pkg)+": "+ax.Src)
	}
	// requires
	env := &SpecEnv{ex: ex, f: f, vars: vars, stypes: map[string]*SType{}, cur: st, old: entry, pkg: pkg, expand: ex.expands, what: "requires of " + ct.Target}
	var reqs []Clause
	if im != nil {
		// interface method contract: `self` is the receiver
		reqs = append(reqs, im.Requires...)
		if len(ct.Requires) > 0 {
			res.Err = "contract error: a method that implements an interface contract may not add requires clauses"
			return res
		}
	} else {
		reqs = ct.Requires
	}
	var reqTerms []string
	for _, rq := range reqs {
		e := env
		if im != nil {
			e = &SpecEnv{ex: ex, vars: vars, stypes: map[string]*SType{}, cur: st, old: entry, pkg: P.typesPkg(im.Pkg), expand: ex.expands, what: "requires of " + im.Target}
		}
		t := e.boolE(rq.Expr)
		reqTerms = append(reqTerms, t)
		vc.Assume(t)
	}
	// vacuity: the preconditions (with type invariants) must be satisfiable
	vc.AddObligation(&Obligation{Name: fmt.Sprintf("cover/%s/requires-sat", ex.oblPrefix), Tag: "cover", Kind: "cover", Func: fn.String(), Goal: "true", IsCover: true, Desc: "preconditions are satisfiable"})

	if !ct.ModAll && (len(ct.Modifies) > 0 || ct.hasModifiesNothing()) {
		menv := &SpecEnv{ex: ex, vars: vars, stypes: map[string]*SType{}, cur: entry, old: entry, pkg: pkg, expand: ex.expands, what: "modifies of " + ct.Target}
		ex.topLocs = f.evalLocs(menv, ct.Modifies)
		if ex.topLocs == nil {
			ex.topLocs = []Loc{}
		}
	}
	rets := f.run(st)

	// ensures
	type ens struct {
		c   Clause
		pkg *types.Package
		src string
	}
	var all []ens
	if im != nil {
		for _, c := range im.Ensures {
			all = append(all, ens{c, P.typesPkg(im.Pkg), im.Target})
		}
	}
	for _, c := range ct.Ensures {
		all = append(all, ens{c, pkg, ct.Target})
	}
	for _, c := range ct.Claims {
		all = append(all, ens{c, pkg, ct.Target})
	}
	// ghost updates at every return
	for k := range rets {
		r := &rets[k]
		for _, up := range ct.Updates {
			pv := map[string]Val{}
			for kk, v := range vars {
				pv[kk] = v
			}
			bindResults(pv, fn.Signature, r.results)
			uenv := &SpecEnv{ex: ex, vars: pv, stypes: map[string]*SType{}, cur: r.st, old: entry, pkg: pkg, expand: ex.expands, what: "update of " + ct.Target}
			if up.Target.Op != "call" || P.models[up.Target.Name] == nil {
				res.Err = "contract error: update target must be a model field application"
				return res
			}
			m := P.models[up.Target.Name]
			x := uenv.Eval(up.Target.Args[0])
			vt := uenv.resolveTypeIn(m.Type, m.Pkg)
			val := uenv.Eval(up.Value)
			hn, hs := "G:"+m.Name, ArrS(SInt, vt.S)
			ex.setH(r.st, hn, hs, sto(ex.H(r.st, hn, hs), uenv.ref(x, up.Target.Args[0]), val.T))
		}
	}
	anyReach := []string{}
	for _, r := range rets {
		anyReach = append(anyReach, r.st.reach)
	}
	if len(rets) > 0 {
		vc.AddObligation(&Obligation{Name: fmt.Sprintf("cover/%s/return-reachable", ex.oblPrefix), Tag: "cover", Kind: "cover", Func: fn.String(), Goal: or(anyReach...), IsCover: true, Desc: "some return is reachable"})
	}
	for _, en := range all {
		var goals []string
		var covers []string
		for _, r := range rets {
			pv := map[string]Val{}
			for k, v := range vars {
				pv[k] = v
			}
			bindResults(pv, fn.Signature, r.results)
			penv := &SpecEnv{ex: ex, f: fvFrame(f), vars: pv, stypes: map[string]*SType{}, cur: r.st, old: entry, pkg: en.pkg, brkPre: entry.brk, brkPost: r.st.brk, expand: ex.expands, what: "ensures of " + en.src}
			goals = append(goals, implies(r.st.reach, penv.boolE(en.c.Expr)))
			if en.c.Expr.Op == "binop" && en.c.Expr.Name == "==>" {
				covers = append(covers, and(r.st.reach, penv.boolE(en.c.Expr.Args[0])))
			}
		}
		tag := en.c.Tag
		if tag == "" {
			tag = "post"
		}
		vc.AddObligation(&Obligation{
			Name: fmt.Sprintf("%s/%s/post", tag, ex.oblPrefix), Tag: tag, Kind: "post", Func: fn.String(),
			Goal: and(goals...), Desc: "postcondition: " + en.c.Src,
		})
		if len(covers) > 0 {
			vc.AddObligation(&Obligation{Name: fmt.Sprintf("cover/%s/post-antecedent", ex.oblPrefix), Tag: "cover", Kind: "cover", Func: fn.String(), Goal: or(covers...), IsCover: true, Desc: "antecedent reachable: " + en.c.Src})
		}
	}
	// frame
	if !ct.ModAll && (len(ct.Modifies) > 0 || ct.hasModifiesNothing()) {
		f.frameObligations(ct, ex.topLocs, entry, rets)
	}
	// canary: a false postcondition behind the reachable returns must be refuted
	if len(rets) > 0 {
		vc.AddObligation(&Obligation{Name: fmt.Sprintf("canary/%s/false-post", ex.oblPrefix), Tag: "canary", Kind: "canary", Func: fn.String(),
			Goal: not(or(anyReach...)), Canary: true, Desc: "canary: 'ensures false' must be refuted"})
	}
	res.Obls = vc.obls
	return res
}

func (c *Contract) hasModifiesNothing() bool { return c.ModNothing }

// frameCond: heap h1 agrees with h0 at reference r (and key k) unless (r[,k]) is one of the listed locations.
// needK reports whether the formula mentions the key variable.
func (ex *Exec) frameCond(hn string, hs Sort, mine []Loc, h0, h1, r, k string) (string, bool) {
	elemS := elemSortOfHeap(hs)
	_ = elemS
	e0, e1 := sel(h0, r), sel(h1, r)
	hasKeyLoc := false
	for _, l := range mine {
		if l.Key != "" {
			hasKeyLoc = true
		}
	}
	if hasKeyLoc {
		var excl []string
		for _, l := range mine {
			if l.Key != "" {
				excl = append(excl, not(and(l.Cond, eq(r, l.Base), eq(k, l.Key))))
			} else {
				excl = append(excl, not(and(l.Cond, eq(r, l.Base))))
			}
		}
		return implies(and(excl...), eq(sel(e0, k), sel(e1, k))), true
	}
	var whole []string
	fieldLocs := map[int][]string{}
	var ft types.Type
	for _, l := range mine {
		if l.Field >= 0 {
			fieldLocs[l.Field] = append(fieldLocs[l.Field], and(l.Cond, eq(r, l.Base)))
			ft = l.FT
		} else {
			whole = append(whole, not(and(l.Cond, eq(r, l.Base))))
		}
	}
	if len(fieldLocs) == 0 {
		return implies(and(whole...), eq(e0, e1)), false
	}
	si := ex.reg.StructInfoOf(ft)
	var per []string
	for idx, fl := range si.Fields {
		per = append(per, or(append(fieldLocs[idx], eq(app(fl.Acc, e0), app(fl.Acc, e1)))...))
	}
	return implies(and(whole...), and(per...)), false
}

// assumeFrame: heap symbol h1 (fresh) agrees with the entry heap outside the function's modifies clause.
func (ex *Exec) assumeFrame(hn string, hs Sort, h1 string) {
	if ex.topLocs == nil || ex.entry == nil {
		return
	}
	var mine []Loc
	for _, l := range ex.topLocs {
		if l.Heap == hn {
			if l.All {
				return
			}
			mine = append(mine, l)
		}
	}
	h0 := ex.H(ex.entry, hn, hs)
	ks, _ := splitArraySort(elemSortOfHeap(hs))
	cond, needK := ex.frameCond(hn, hs, mine, h0, h1, "qr", "qk")
	binders := "(qr Int)"
	pat := fmt.Sprintf("(select %s qr)", h1)
	if needK {
		binders += fmt.Sprintf(" (qk %s)", ks)
		pat = fmt.Sprintf("(select (select %s qr) qk)", h1)
	}
	ex.vc.Assume(fmt.Sprintf("(forall (%s) (! (=> (and (>= qr 0) (<= qr %s)) %s) :pattern (%s)))", binders, ex.entry.brk, cond, pat))
}

// frameObligations: every heap cell that existed at entry and is not listed in modifies is unchanged at every return.
func (f *Frame) frameObligations(ct *Contract, locs []Loc, entry *PState, rets []retInfo) {
	ex := f.ex
	vc := ex.vc
	names := map[string]bool{}
	for _, r := range rets {
		for n := range r.st.heap {
			names[n] = true
		}
	}
	tag := "frame"
	if len(ct.Modifies) > 0 && ct.Modifies[0].Tag != "" {
		tag = ct.Modifies[0].Tag
	} else if ct.FrameTag != "" {
		tag = ct.FrameTag
	}
	for _, hn := range sortedKeys(names) {
		hs := ex.hsorts[hn]
		var mine []Loc
		all := false
		for _, l := range locs {
			if l.Heap == hn {
				mine = append(mine, l)
				if l.All {
					all = true
				}
			}
		}
		if all {
			continue
		}
		changed := false
		h0 := ex.H(entry, hn, hs)
		for _, r := range rets {
			if ex.H(r.st, hn, hs) != h0 {
				changed = true
			}
		}
		if !changed {
			continue
		}
		r := vc.Fresh("fr_r", SInt)
		ks, _ := splitArraySort(elemSortOfHeap(hs))
		k := ""
		var goals []string
		for _, ret := range rets {
			h1 := ex.H(ret.st, hn, hs)
			if h1 == h0 {
				continue
			}
			if k == "" {
				for _, l := range mine {
					if l.Key != "" {
						k = vc.Fresh("fr_k", ks)
						break
					}
				}
			}
			same, _ := ex.frameCond(hn, hs, mine, h0, h1, r, k)
			goals = append(goals, implies(and(ret.st.reach, fmt.Sprintf("(<= %s %s)", r, entry.brk), fmt.Sprintf("(>= %s 0)", r)), same))
		}
		vc.AddObligation(&Obligation{
			Name: fmt.Sprintf("%s/%s/frame[%s]", tag, ex.oblPrefix, hn), Tag: tag, Kind: "frame", Func: f.fn.String(),
			Goal: and(goals...), Desc: fmt.Sprintf("only the locations listed in modifies change in heap %s", hn),
		})
	}
}

// fvFrame: in postconditions only the closure's free variables are resolved through the frame
// (locals are not in scope of a contract).
func fvFrame(f *Frame) *Frame {
	if len(f.fn.FreeVars) == 0 {
		return nil
	}
	nf := &Frame{ex: f.ex, fn: f.fn, vals: map[ssa.Value]Val{}, names: map[string][]ssa.Value{}}
	for _, fv := range f.fn.FreeVars {
		nf.vals[fv] = f.vals[fv]
		nf.names[fv.Name()] = []ssa.Value{fv}
	}
	return nf
}

func importsPkg(p *types.Package, path string) bool {
	if p == nil {
		return false
	}
	seen := map[*types.Package]bool{}
	var rec func(q *types.Package, d int) bool
	rec = func(q *types.Package, d int) bool {
		if seen[q] || d > 6 {
			return false
		}
		seen[q] = true
		for _, im := range q.Imports() {
			if im.Path() == path {
				return true
			}
			if strings.HasPrefix(im.Path(), modPath) && rec(im, d+1) {
				return true
			}
		}
		return false
	}
	return rec(p, 0)
}
