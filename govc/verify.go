package main

// Verification of one function against its contract.

import (
	"fmt"
	"runtime/debug"
	"go/types"
	"strings"

	"golang.org/x/tools/go/ssa"
)

type FuncResult struct {
	Contract *Contract
	Fn       *ssa.Function
	VC       *VC
	Err      string // outside subset / spec error
	Prelude  string
	Obls     []*Obligation
	IfaceOf  string
}

func (P *Program) pkgOfFn(fn *ssa.Function, ct *Contract) *types.Package {
	if fn.Pkg != nil {
		return fn.Pkg.Pkg
	}
	return P.typesPkg(ct.Pkg)
}

// mergedContract adds the clauses inherited from an interface method contract.
func (P *Program) mergedContract(ct *Contract) (*Contract, *Contract) {
	if ct.Implements == "" {
		return ct, nil
	}
	ic := P.ifaces[ct.Pkg+"."+ct.Implements]
	if ic == nil && strings.Contains(ct.Implements, ".") {
		// qualified: pkgname.Iface
		k := strings.Index(ct.Implements, ".")
		pn, in := ct.Implements[:k], ct.Implements[k+1:]
		for key, cand := range P.ifaces {
			if cand.Name == in && (strings.HasSuffix(cand.Pkg, "/"+pn) || cand.Pkg == pn) {
				_ = key
				ic = cand
			}
		}
	}
	if ic == nil {
		return ct, nil
	}
	// method name
	t := normTarget(ct.Target)
	mn := t[strings.LastIndex(t, ".")+1:]
	im := ic.Methods[mn]
	if im == nil {
		return ct, nil
	}
	return ct, im
}

// VerifyFunc generates the obligations of fn under contract ct.
func (P *Program) VerifyFunc(ct *Contract, fn *ssa.Function) (res *FuncResult) {
	res = &FuncResult{Contract: ct, Fn: fn}
	aimOn := ct.AimCheck != nil && P.aimOn != nil && P.aimOn(ct.AimCheck.Tag)
	if !aimOn && ct.AimCheck != nil && P.aimOn != nil {
		for _, mc := range ct.MustCall {
			if P.aimOn(mc.Tag) {
				aimOn = true // a check that only wants the mustcall obligations still needs the aim-mode run
			}
		}
	}
	if aimOn {
		ct = ct.aimView()
	}
	vc := NewVC(P.reg)
	res.VC = vc
	ex := &Exec{P: P, vc: vc, reg: P.reg, top: fn, safetyTag: ct.Safety, hsorts: heapSorts{}, expands: map[string]bool{}, reprCache: map[string]string{}, maxInline: 400}
	ex.oblPrefix = shortPkg(ct.Pkg) + "." + ct.Target
	if ct.View != "" {
		ex.oblPrefix += "@" + ct.View
	}
	// representation clauses are expanded for the receiver's own type and for types listed in `expands`
	if fn.Signature.Recv() != nil {
		rt := fn.Signature.Recv().Type()
		name := types.TypeString(rt, func(p *types.Package) string { return "" })
		ex.expands[name] = true
		if !strings.HasPrefix(name, "*") {
			ex.expands["*"+name] = true
		}
	}
	// representation clauses of the function's own package are visible (the package is the abstraction boundary)
	for _, rs := range P.reprs {
		for _, r := range rs {
			if r.Pkg == ct.Pkg {
				ex.expands[r.Type] = true
			}
		}
	}
	for _, e := range ct.Expands {
		ex.expands[e] = true
	}
	defer func() {
		if r := recover(); r != nil {
			switch e := r.(type) {
			case *unsupportedErr:
				res.Err = "outside subset: " + e.msg
			case *specErr:
				res.Err = "contract error: " + e.msg
			default:
				// an engine bug must not take the other functions down: report it as not verifiable
				stack := string(debug.Stack())
				where := ""
				for _, l := range strings.Split(stack, "\n") {
					if strings.Contains(l, "/govc/") && !strings.Contains(l, "verify.go") {
						where = strings.TrimSpace(l)
						break
					}
				}
				res.Err = fmt.Sprintf("engine error: %v at %s", r, where)
			}
			res.Obls = nil
		}
	}()
	st := &PState{reach: "true", heap: map[string]string{}, epoch: 0}
	st.brk = vc.Declare("brk0", SInt)
	vc.Assume("(>= brk0 0)")
	f := ex.newFrame(fn)
	f.contract = ct
	ex.topFrame = f
	ex.frames = []*Frame{f}
	if aimOn {
		ex.aim = ct.AimCheck
		ex.origins = map[int]*epochOrigin{}
		ex.heapTypes = map[string]types.Type{}
		ex.oblPrefix += "@aim"
	}
	vc.opaqueArith = ct.OpaqueArith
	// parameters
	var args []Val
	for _, p := range fn.Params {
		v := ex.havocVal("p_"+p.Name(), p.Type())
		args = append(args, v)
		f.assumeAllocated(v.T, p.Type(), st, 0)
	}
	f.params = args
	// free variables of a closure under contract: arbitrary cells (captured by reference)
	for _, fv := range fn.FreeVars {
		v := ex.havocVal("fv_"+fv.Name(), fv.Type())
		f.freeVars = append(f.freeVars, v)
		f.assumeAllocated(v.T, fv.Type(), st, 0)
		ex.vc.Assume(not(eq(v.T, "0")))
		f.vals[fv] = v
		f.names[fv.Name()] = append(f.names[fv.Name()], fv)
	}
	ex.entry = st.clone()
	entry := ex.entry
	pkg := P.pkgOfFn(fn, ct)
	vars := f.specVarsFor(ct, fn, fn.Signature, args, false)
	if ct.Iterator && !ct.Trusted && !aimOn {
		// the body of an iterator is verified: calls of its callback parameter are yield points
		for k := len(fn.Params) - 1; k >= 0; k-- {
			if _, isFn := fn.Params[k].Type().Underlying().(*types.Signature); isFn {
				ex.iterSelf = &iterSelf{param: fn.Params[k], ct: ct, vars: vars}
				break
			}
		}
	}
	_, im := P.mergedContract(ct)
	// axioms
	for _, ax := range P.axioms {
		// an axiom is in force in its own package and in packages that import it
		if ax.Pkg != ct.Pkg && !importsPkg(pkg, ax.Pkg) {
			continue
		}
		aenv := &SpecEnv{ex: ex, vars: map[string]Val{}, stypes: map[string]*SType{}, cur: entry, old: entry, pkg: P.typesPkg(ax.Pkg), what: "axiom " + ax.Tag}
		// only added to queries that mention one of the ghost functions declared in the axiom's own package;
		// an axiom that mentions none of them is local to its package
		var own []string
		for name, g := range P.ghosts {
			if g.Pkg == ax.Pkg && g.Body == nil {
				own = append(own, "gf_"+sanitize(name))
			}
		}
		term := aenv.boolE(ax.Expr)
		var syms []string
		for _, o := range own {
			if strings.Contains(term, o+" ") || strings.Contains(term, o+")") {
				syms = append(syms, o)
			}
		}
		if len(syms) == 0 && ax.Pkg != ct.Pkg {
			continue
		}
		vc.AddCondAxiomSyms(term, syms, "axiom "+shortPkg(ax.Pkg)+": "+ax.Src)
	}
	// requires
	env := &SpecEnv{ex: ex, f: f, vars: vars, stypes: map[string]*SType{}, cur: st, old: entry, pkg: pkg, expand: ex.expands, what: "requires of " + ct.Target}
	var reqs []Clause
	if im != nil {
		// interface method contract: `self` is the receiver
		reqs = append(reqs, im.Requires...)
		if len(ct.Requires) > 0 {
			res.Err = "contract error: a method that implements an interface contract may not add requires clauses"
			return res
		}
	} else {
		reqs = ct.Requires
	}
	var reqTerms []string
	for _, rq := range reqs {
		e := env
		if im != nil {
			e = &SpecEnv{ex: ex, vars: vars, stypes: map[string]*SType{}, cur: st, old: entry, pkg: P.typesPkg(im.Pkg), expand: ex.expands, what: "requires of " + im.Target}
		}
		t := e.boolE(rq.Expr)
		reqTerms = append(reqTerms, t)
		vc.Assume(t)
	}
	for _, as := range ct.Assumes {
		vc.Assume(env.boolE(as.Expr))
		vc.trusted["environment assumption of "+shortPkg(ct.Pkg)+"."+ct.Target+" ("+as.Tag+"): "+as.Src] = true
	}
	// facts exported by the same handler type's Validate hold under the validated token
	if im != nil && fn.Signature.Recv() != nil && (strings.HasSuffix(normTarget(ct.Target), ".ProcessCheck") || strings.HasSuffix(normTarget(ct.Target), ".ProcessDeliver") || strings.HasSuffix(normTarget(ct.Target), ".ProcessFee")) {
		t := normTarget(ct.Target)
		vkey := ct.Pkg + "." + t[:strings.LastIndex(t, ".")] + ".Validate"
		if vct := P.contracts[vkey]; vct != nil && len(vct.Exports) > 0 {
			self := args[0]
			selfIface := fmt.Sprintf("(mk_iface %d %s)", P.reg.TypeTag(fn.Signature.Recv().Type()), "0")
			if _, isPtr := fn.Signature.Recv().Type().Underlying().(*types.Pointer); isPtr {
				selfIface = fmt.Sprintf("(mk_iface %d %s)", P.reg.TypeTag(fn.Signature.Recv().Type()), self.T)
			}
			_ = selfIface
			evars := map[string]Val{}
			for k, v := range vars {
				evars[k] = v
			}
			var token string
			if stx := signedTxParam(fn, args); stx != nil {
				evars["raw"] = ex.fieldOf(*stx, "RawTx")
				evars["sigs"] = ex.fieldOf(*stx, "Signatures")
				token = "validatedTx(self, " + paramNameOf(fn, stx) + ")"
			} else if rtx := rawTxParam(fn, args); rtx != nil {
				evars["raw"] = *rtx
				token = "validatedRaw(self, " + paramNameOf(fn, rtx) + ")"
			}
			if token != "" {
				// the token was granted for this handler object: `self` as the interface value the wrapper called
				evars["self"] = Val{T: ex.ifaceOfRecv(fn, self), S: SIface}
				tenv := &SpecEnv{ex: ex, f: f, vars: evars, stypes: map[string]*SType{}, cur: st, old: entry, pkg: P.typesPkg(im.Pkg), expand: ex.expands, what: "validated token of " + ct.Target}
				te, err := ParseExpr(token)
				if err == nil {
					tok := tenv.boolE(te)
					for _, c := range vct.Exports {
						if _, hasSigs := evars["sigs"]; !hasSigs && mentionsVar(c.Expr, "sigs") {
							continue
						}
						cenv := &SpecEnv{ex: ex, f: f, vars: evars, stypes: map[string]*SType{}, cur: st, old: entry, pkg: pkg, expand: ex.expands, what: "exported fact of " + vct.Target}
						vc.Assume(implies(tok, cenv.boolE(c.Expr)))
						vc.trusted["validated-facts: a fact proved for "+shortPkg(vct.Pkg)+"."+vct.Target+" (exports) is assumed in "+ct.Target+" under the validated token; facts are functions of the transaction and of state that is constant after genesis (A-CURRENCIES)"] = true
					}
				}
			}
		}
	}
	// vacuity: the preconditions (with type invariants) must be satisfiable
	vc.AddObligation(&Obligation{Name: fmt.Sprintf("cover/%s/requires-sat", ex.oblPrefix), Tag: "cover", Kind: "cover", Func: fn.String(), Goal: "true", IsCover: true, Desc: "preconditions are satisfiable"})

	if !ct.ModAll && !ct.TrustFrame && (len(ct.Modifies) > 0 || ct.hasModifiesNothing()) {
		menv := &SpecEnv{ex: ex, vars: vars, stypes: map[string]*SType{}, cur: entry, old: entry, pkg: pkg, expand: ex.expands, what: "modifies of " + ct.Target}
		ex.topLocs = f.evalLocs(menv, ct.Modifies)
		if ex.topLocs == nil {
			ex.topLocs = []Loc{}
		}
	}
	if len(ct.MustCall) > 0 && ex.aim != nil {
		hs := ArrS(SInt, SBool)
		ex.hsorts[mustCallHeap] = hs
		st.heap[mustCallHeap] = ex.vc.Define("mc0", hs, "((as const "+string(hs)+") false)")
	}
	rets := f.run(st)
	if len(ct.MustCall) > 0 && ex.aim != nil {
		f.mustCallObligations(ct, entry, rets)
	}

	// ensures
	type ens struct {
		c   Clause
		pkg *types.Package
		src string
	}
	var all []ens
	if im != nil {
		for _, c := range im.Ensures {
			all = append(all, ens{c, P.typesPkg(im.Pkg), im.Target})
		}
	}
	for _, c := range ct.Ensures {
		all = append(all, ens{c, pkg, ct.Target})
	}
	for _, c := range ct.Claims {
		all = append(all, ens{c, pkg, ct.Target})
	}
	if len(ct.Exports) > 0 {
		stx := signedTxParam(fn, args)
		if stx == nil {
			res.Err = "contract error: exports needs a parameter of type action.SignedTx"
			return res
		}
		vars["raw"] = ex.fieldOf(*stx, "RawTx")
		vars["sigs"] = ex.fieldOf(*stx, "Signatures")
		for _, c := range ct.Exports {
			all = append(all, ens{Clause{Tag: c.Tag, Src: "result0 ==> " + c.Src, Expr: &SExpr{Op: "binop", Name: "==>", Args: []*SExpr{{Op: "var", Name: "result0"}, c.Expr}}}, pkg, ct.Target})
		}
	}
	// ghost updates at every return
	for k := range rets {
		r := &rets[k]
		for _, up := range ct.Updates {
			pv := map[string]Val{}
			for kk, v := range vars {
				pv[kk] = v
			}
			bindResults(pv, fn.Signature, r.results)
			uenv := &SpecEnv{ex: ex, vars: pv, stypes: map[string]*SType{}, cur: r.st, old: entry, pkg: pkg, expand: ex.expands, what: "update of " + ct.Target}
			if up.Target.Op != "call" || P.models[up.Target.Name] == nil {
				res.Err = "contract error: update target must be a model field application"
				return res
			}
			m := P.models[up.Target.Name]
			x := uenv.Eval(up.Target.Args[0])
			vt := uenv.resolveTypeIn(m.Type, m.Pkg)
			val := uenv.Eval(up.Value)
			hn, hs := "G:"+m.Name, ArrS(SInt, vt.S)
			ref := uenv.ref(x, up.Target.Args[0])
			cur := ex.H(r.st, hn, hs)
			ex.setH(r.st, hn, hs, ite(eq(ref, "0"), cur, sto(cur, ref, val.T))) // nil has no ghost fields
		}
	}
	anyReach := []string{}
	for _, r := range rets {
		anyReach = append(anyReach, r.st.reach)
	}
	if len(rets) > 0 {
		vc.AddObligation(&Obligation{Name: fmt.Sprintf("cover/%s/return-reachable", ex.oblPrefix), Tag: "cover", Kind: "cover", Func: fn.String(), Goal: or(anyReach...), IsCover: true, Desc: "some return is reachable"})
	}
	for _, en := range all {
		var goals []string
		var covers []string
		for _, r := range rets {
			pv := map[string]Val{}
			for k, v := range vars {
				pv[k] = v
			}
			bindResults(pv, fn.Signature, r.results)
			penv := &SpecEnv{ex: ex, f: fvFrame(f), vars: pv, stypes: map[string]*SType{}, cur: r.st, old: entry, pkg: en.pkg, brkPre: entry.brk, brkPost: r.st.brk, expand: ex.expands, what: "ensures of " + en.src}
			goals = append(goals, implies(r.st.reach, penv.boolE(en.c.Expr)))
			if en.c.Expr.Op == "binop" && en.c.Expr.Name == "==>" {
				covers = append(covers, and(r.st.reach, penv.boolE(en.c.Expr.Args[0])))
			}
		}
		tag := en.c.Tag
		if tag == "" {
			tag = "post"
		}
		vc.AddObligation(&Obligation{
			Name: fmt.Sprintf("%s/%s/post", tag, ex.oblPrefix), Tag: tag, Kind: "post", Func: fn.String(),
			Goal: and(goals...), Desc: "postcondition: " + en.c.Src,
		})
		if len(covers) > 0 {
			vc.AddObligation(&Obligation{Name: fmt.Sprintf("cover/%s/post-antecedent", ex.oblPrefix), Tag: "cover", Kind: "cover", Func: fn.String(), Goal: or(covers...), IsCover: true, Desc: "antecedent reachable: " + en.c.Src})
		}
	}
	// frame
	if !ct.ModAll && !ct.TrustFrame && (len(ct.Modifies) > 0 || ct.hasModifiesNothing()) {
		f.frameObligations(ct, ex.topLocs, entry, rets)
	}
	// canary: a false postcondition behind the reachable returns must be refuted
	if len(rets) > 0 {
		vc.AddObligation(&Obligation{Name: fmt.Sprintf("canary/%s/false-post", ex.oblPrefix), Tag: "canary", Kind: "canary", Func: fn.String(),
			Goal: not(or(anyReach...)), Canary: true, Desc: "canary: 'ensures false' must be refuted"})
	}
	res.Obls = vc.obls
	if ct.View != "" {
		// a view proves its own clauses only: the safety, frame and call-site obligations of the body belong to the main contract
		own := map[string]bool{}
		for _, cs := range [][]Clause{ct.Ensures, ct.Claims, ct.Lemmas} {
			for _, c := range cs {
				own[c.Tag] = true
			}
		}
		for _, is := range ct.Invs {
			for _, c := range is {
				own[c.Tag] = true
			}
		}
		var keep []*Obligation
		for _, o := range res.Obls {
			if own[o.Tag] || o.IsCover || o.Canary {
				keep = append(keep, o)
			}
		}
		res.Obls = keep
	}
	return res
}

func (c *Contract) hasModifiesNothing() bool { return c.ModNothing }

// frameCond: heap h1 agrees with h0 at reference r (and key k) unless (r[,k]) is one of the listed locations.
// needK reports whether the formula mentions the key variable.
func (ex *Exec) frameCond(hn string, hs Sort, mine []Loc, h0, h1, r, k string) (string, bool) {
	elemS := elemSortOfHeap(hs)
	_ = elemS
	e0, e1 := sel(h0, r), sel(h1, r)
	hasKeyLoc := false
	for _, l := range mine {
		if l.Key != "" {
			hasKeyLoc = true
		}
	}
	if hasKeyLoc {
		var excl []string
		for _, l := range mine {
			if l.Key != "" {
				excl = append(excl, not(and(l.Cond, eq(r, l.Base), eq(k, l.Key))))
			} else {
				excl = append(excl, not(and(l.Cond, eq(r, l.Base))))
			}
		}
		return implies(and(excl...), eq(sel(e0, k), sel(e1, k))), true
	}
	var whole []string
	fieldLocs := map[int][]string{}
	var ft types.Type
	for _, l := range mine {
		if l.Field >= 0 {
			fieldLocs[l.Field] = append(fieldLocs[l.Field], and(l.Cond, eq(r, l.Base)))
			ft = l.FT
		} else {
			whole = append(whole, not(and(l.Cond, eq(r, l.Base))))
		}
	}
	if len(fieldLocs) == 0 {
		return implies(and(whole...), eq(e0, e1)), false
	}
	si := ex.reg.StructInfoOf(ft)
	var per []string
	for idx, fl := range si.Fields {
		per = append(per, or(append(fieldLocs[idx], eq(app(fl.Acc, e0), app(fl.Acc, e1)))...))
	}
	return implies(and(whole...), and(per...)), false
}

// assumeFrame: heap symbol h1 (fresh) agrees with the entry heap outside the function's modifies clause.
func (ex *Exec) assumeFrame(hn string, hs Sort, h1 string) {
	if ex.topLocs == nil || ex.entry == nil {
		return
	}
	var mine []Loc
	for _, l := range ex.topLocs {
		if l.Heap == hn {
			if l.All {
				return
			}
			mine = append(mine, l)
		}
	}
	h0 := ex.H(ex.entry, hn, hs)
	ks, _ := splitArraySort(elemSortOfHeap(hs))
	cond, needK := ex.frameCond(hn, hs, mine, h0, h1, "qr", "qk")
	binders := "(qr Int)"
	pat := fmt.Sprintf("(select %s qr)", h1)
	if needK {
		binders += fmt.Sprintf(" (qk %s)", ks)
		pat = fmt.Sprintf("(select (select %s qr) qk)", h1)
	}
	ex.vc.Assume(fmt.Sprintf("(forall (%s) (! (=> (and (>= qr 0) (<= qr %s)) %s) :pattern (%s)))", binders, ex.entry.brk, cond, pat))
}

// frameObligations: every heap cell that existed at entry and is not listed in modifies is unchanged at every return.
func (f *Frame) frameObligations(ct *Contract, locs []Loc, entry *PState, rets []retInfo) {
	ex := f.ex
	vc := ex.vc
	names := map[string]bool{}
	for _, r := range rets {
		for n := range r.st.heap {
			names[n] = true
		}
	}
	tag := "frame"
	if len(ct.Modifies) > 0 && ct.Modifies[0].Tag != "" {
		tag = ct.Modifies[0].Tag
	} else if ct.FrameTag != "" {
		tag = ct.FrameTag
	}
	for _, hn := range sortedKeys(names) {
		hs := ex.hsorts[hn]
		var mine []Loc
		all := false
		for _, l := range locs {
			if l.Heap == hn {
				mine = append(mine, l)
				if l.All {
					all = true
				}
			}
		}
		if all {
			continue
		}
		changed := false
		h0 := ex.H(entry, hn, hs)
		for _, r := range rets {
			if ex.H(r.st, hn, hs) != h0 {
				changed = true
			}
		}
		if !changed {
			continue
		}
		r := vc.Fresh("fr_r", SInt)
		ks, _ := splitArraySort(elemSortOfHeap(hs))
		k := ""
		var goals []string
		for _, ret := range rets {
			h1 := ex.H(ret.st, hn, hs)
			if h1 == h0 {
				continue
			}
			if k == "" {
				for _, l := range mine {
					if l.Key != "" {
						k = vc.Fresh("fr_k", ks)
						break
					}
				}
			}
			same, _ := ex.frameCond(hn, hs, mine, h0, h1, r, k)
			goals = append(goals, implies(and(ret.st.reach, fmt.Sprintf("(<= %s %s)", r, entry.brk), fmt.Sprintf("(>= %s 0)", r)), same))
		}
		vc.AddObligation(&Obligation{
			Name: fmt.Sprintf("%s/%s/frame[%s]", tag, ex.oblPrefix, hn), Tag: tag, Kind: "frame", Func: f.fn.String(),
			Goal: and(goals...), Desc: fmt.Sprintf("only the locations listed in modifies change in heap %s", hn),
		})
	}
}

// fvFrame: in postconditions only the closure's free variables are resolved through the frame
// (locals are not in scope of a contract).
func fvFrame(f *Frame) *Frame {
	if len(f.fn.FreeVars) == 0 {
		return nil
	}
	nf := &Frame{ex: f.ex, fn: f.fn, vals: map[ssa.Value]Val{}, names: map[string][]ssa.Value{}}
	for _, fv := range f.fn.FreeVars {
		nf.vals[fv] = f.vals[fv]
		nf.names[fv.Name()] = []ssa.Value{fv}
	}
	return nf
}

func importsPkg(p *types.Package, path string) bool {
	if p == nil {
		return false
	}
	seen := map[*types.Package]bool{}
	var rec func(q *types.Package, d int) bool
	rec = func(q *types.Package, d int) bool {
		if seen[q] || d > 6 {
			return false
		}
		seen[q] = true
		for _, im := range q.Imports() {
			if im.Path() == path {
				return true
			}
			if strings.HasPrefix(im.Path(), modPath) && rec(im, d+1) {
				return true
			}
		}
		return false
	}
	return rec(p, 0)
}

func isNamedIn(t types.Type, pkgSuffix, name string) bool {
	n, ok := types.Unalias(t).(*types.Named)
	return ok && n.Obj().Name() == name && n.Obj().Pkg() != nil && strings.HasSuffix(n.Obj().Pkg().Path(), pkgSuffix)
}

func signedTxParam(fn *ssa.Function, args []Val) *Val {
	for i, p := range fn.Params {
		if isNamedIn(p.Type(), "/action", "SignedTx") {
			return &args[i]
		}
	}
	return nil
}

func rawTxParam(fn *ssa.Function, args []Val) *Val {
	for i, p := range fn.Params {
		if isNamedIn(p.Type(), "/action", "RawTx") {
			return &args[i]
		}
	}
	return nil
}

func paramNameOf(fn *ssa.Function, v *Val) string {
	for _, p := range fn.Params {
		if isNamedIn(p.Type(), "/action", "SignedTx") || isNamedIn(p.Type(), "/action", "RawTx") {
			return p.Name()
		}
	}
	return ""
}

func mentionsVar(e *SExpr, name string) bool {
	if e == nil {
		return false
	}
	if e.Op == "var" && e.Name == name {
		return true
	}
	for _, a := range e.Args {
		if mentionsVar(a, name) {
			return true
		}
	}
	return false
}

// fieldOf selects a (possibly embedded) field of a struct value.
func (ex *Exec) fieldOf(v Val, name string) Val {
	path, _, ok := fieldPath(v.GT, name)
	cur := v
	if !ok {
		return v
	}
	for _, idx := range path {
		si := ex.reg.StructInfoOf(cur.GT)
		fl := si.Fields[idx]
		cur = Val{T: app(fl.Acc, cur.T), S: fl.Sort, GT: fl.T}
	}
	return cur
}

// ifaceOfRecv: the interface value through which a method with this receiver is invoked. Value receivers are
// boxed: the wrapper's handler value has an unknown box address, so the payload is left unconstrained by using
// a per-type constant (handlers are stateless empty structs; identity of the box does not matter for the token,
// which is why the token is stated on the type tag only for value receivers).
func (ex *Exec) ifaceOfRecv(fn *ssa.Function, self Val) string {
	rt := fn.Signature.Recv().Type()
	tag := ex.reg.TypeTag(rt)
	if _, isPtr := rt.Underlying().(*types.Pointer); isPtr {
		return fmt.Sprintf("(mk_iface %d %s)", tag, self.T)
	}
	box := ex.reg.Global("handlerbox_"+sanitize(types.TypeString(rt, nil)), SInt)
	return fmt.Sprintf("(mk_iface %d %s)", tag, box)
}

// ifaceOfValue: the interface value holding v (pointers by identity; other values through a per-type box constant).
func (ex *Exec) ifaceOfValue(v Val) string {
	tag := ex.reg.TypeTag(v.GT)
	if _, isPtr := v.GT.Underlying().(*types.Pointer); isPtr {
		return fmt.Sprintf("(mk_iface %d %s)", tag, v.T)
	}
	box := ex.reg.Global("handlerbox_"+sanitize(types.TypeString(v.GT, nil)), SInt)
	return fmt.Sprintf("(mk_iface %d %s)", tag, box)
}

// frameAt emits, for the heaps in `names`, the obligation that state st agrees with the function-entry
// heap outside the function's modifies clause (used at loop back edges and after iterator callbacks,
// where the heap is otherwise forgotten by the havoc at the loop head).
func (f *Frame) frameAt(names []string, st *PState, guard, where string) {
	ex := f.ex
	if ex.topLocs == nil || ex.entry == nil {
		return
	}
	ct := ex.P.ContractFor(ex.top)
	tag := "frame"
	if ct != nil {
		if len(ct.Modifies) > 0 && ct.Modifies[0].Tag != "" {
			tag = ct.Modifies[0].Tag
		} else if ct.FrameTag != "" {
			tag = ct.FrameTag
		}
	}
	for _, hn := range names {
		hs := ex.hsorts[hn]
		var mine []Loc
		all := false
		for _, l := range ex.topLocs {
			if l.Heap == hn {
				mine = append(mine, l)
				if l.All {
					all = true
				}
			}
		}
		if all {
			continue
		}
		h0 := ex.H(ex.entry, hn, hs)
		h1 := ex.H(st, hn, hs)
		if h0 == h1 {
			continue
		}
		r := ex.vc.Fresh("fr_r", SInt)
		ks, _ := splitArraySort(elemSortOfHeap(hs))
		k := ""
		for _, l := range mine {
			if l.Key != "" {
				k = ex.vc.Fresh("fr_k", ks)
				break
			}
		}
		same, _ := ex.frameCond(hn, hs, mine, h0, h1, r, k)
		ex.vc.AddObligation(&Obligation{
			Name: fmt.Sprintf("%s/%s/frame-%s[%s]%s", tag, ex.oblPrefix, where, hn, f.inlineSuffix()), Tag: tag, Kind: "frame", Func: ex.top.String(),
			Goal: implies(and(guard, fmt.Sprintf("(<= %s %s)", r, ex.entry.brk), fmt.Sprintf("(>= %s 0)", r)), same),
			Desc: fmt.Sprintf("only the locations listed in modifies change in heap %s (%s)", hn, where),
		})
	}
}
