package governance

// Replays for the C14 clauses that the real code violates (property C14: governance proposals follow their lifecycle
// and their funds are accounted for). Injected as action/governance/zz_verif_replay_test.go.
// Every test builds its own in-memory stores and FAILS while the defect is present.

import (
	"os"
	"testing"

	abci "github.com/tendermint/tendermint/abci/types"
	db "github.com/tendermint/tm-db"

	"github.com/Oneledger/protocol/action"
	"github.com/Oneledger/protocol/data/balance"
	"github.com/Oneledger/protocol/data/chain"
	"github.com/Oneledger/protocol/data/fees"
	gov "github.com/Oneledger/protocol/data/governance"
	"github.com/Oneledger/protocol/data/keys"
	"github.com/Oneledger/protocol/identity"
	"github.com/Oneledger/protocol/log"
	"github.com/Oneledger/protocol/storage"
)

const vrPid = gov.ProposalID("aaaaaaaaaaaaaaaaaaaaaaaaaaaaaaaaaaaaaaaaaaaaaaaaaaaaaaaaaaaaaaaa")

type vrEnv struct {
	ctx      *action.Context
	cs       *storage.State
	v1, v2   keys.Address
	proposer keys.Address
}

func vrAddr() keys.Address {
	pub, _, _ := keys.NewKeyPairFromTendermint()
	h, _ := pub.GetHandler()
	return h.Address()
}

func vrBal(ctx *action.Context, a keys.Address) *balance.Amount {
	c, _ := ctx.Currencies.GetCurrencyByName("OLT")
	b, err := ctx.Balances.GetBalanceForCurr(a, &c)
	if err != nil || b.Amount == nil {
		return balance.NewAmount(0)
	}
	return b.Amount
}

// vrSetup: a context over one MemDB state with two validators (power 60 / 40), the governance options with pass
// percentage optPass in force, and the given passed / failed fund distributions.
func vrSetup(optPass int, passed, failed gov.ProposalFundDistribution) *vrEnv {
	memDb := db.NewDB("c14", db.MemDBBackend, "")
	cs := storage.NewState(storage.NewChainState("c14", memDb))
	currencies := balance.NewCurrencySet()
	olt := balance.Currency{Id: 0, Name: "OLT", Chain: chain.ONELEDGER, Decimal: 18, Unit: "nue"}
	_ = currencies.Register(olt)
	pms := gov.NewProposalMasterStore(
		gov.NewProposalStore("propActive", "propPassed", "propFailed", "propFinalized", "propFinalizeFailed", cs),
		gov.NewProposalFundStore("propFunds", cs),
		gov.NewProposalVoteStore("propVotes", cs))
	ctx := &action.Context{
		Header:              &abci.Header{Height: 100},
		State:               cs,
		Balances:            balance.NewStore("b", cs),
		Currencies:          currencies,
		ProposalMasterStore: pms,
		Logger:              log.NewLoggerWithPrefix(os.Stdout, "c14replay"),
	}
	ctx.FeePool = fees.NewStore("f", cs)
	ctx.FeePool.SetupOpt(&fees.FeeOption{FeeCurrency: olt, MinFeeDecimal: 9})
	ctx.Validators = identity.NewValidatorStore("v", "purge", cs)
	e := &vrEnv{ctx: ctx, cs: cs, v1: vrAddr(), v2: vrAddr(), proposer: vrAddr()}
	_ = ctx.Validators.Set(identity.Validator{Address: e.v1, StakeAddress: e.v1, Power: 60, Name: "v1"})
	_ = ctx.Validators.Set(identity.Validator{Address: e.v2, StakeAddress: e.v2, Power: 40, Name: "v2"})
	ctx.GovernanceStore = gov.NewStore("g", cs)
	opt := gov.ProposalOption{InitialFunding: balance.NewAmount(1), FundingGoal: balance.NewAmount(10), FundingDeadline: 10, VotingDeadline: 1000, PassPercentage: optPass, PassedFundDistribution: passed, FailedFundDistribution: failed, ProposalExecutionCost: "exec"}
	set := gov.ProposalOptionSet{ConfigUpdate: opt, CodeChange: opt, General: opt, BountyProgramAddr: "bounty"}
	_ = ctx.GovernanceStore.WithHeight(0).SetProposalOptions(set)
	_ = ctx.GovernanceStore.WithHeight(0).SetAllLUH()
	ctx.ProposalMasterStore.Proposal.SetOptions(&set)
	return e
}

func vrHas(ctx *action.Context, st gov.ProposalState) bool {
	_, err := ctx.ProposalMasterStore.Proposal.WithPrefixType(st).Get(vrPid)
	return err == nil
}

// two distributions that can be told apart by who is paid: "passed" pays the proposer 18 %, "failed" pays the proposer nothing
var vrPassedDist = gov.ProposalFundDistribution{Validators: 18, FeePool: 18, Burn: 18, ExecutionCost: 18, BountyPool: 10, ProposerReward: 18}
var vrFailedDist = gov.ProposalFundDistribution{Validators: 10, FeePool: 40, Burn: 10, ExecutionCost: 20, BountyPool: 20, ProposerReward: 0}

// vrVotes: snapshot (v1: 60, v2: 40) with v1 = YES, v2 = NO
func (e *vrEnv) vrVotes() {
	vs := e.ctx.ProposalMasterStore.ProposalVote
	_ = vs.Setup(vrPid, gov.NewProposalVote(e.v1, gov.OPIN_UNKNOWN, 60))
	_ = vs.Setup(vrPid, gov.NewProposalVote(e.v2, gov.OPIN_UNKNOWN, 40))
	_ = vs.Update(vrPid, gov.NewProposalVote(e.v1, gov.OPIN_POSITIVE, 60))
	_ = vs.Update(vrPid, gov.NewProposalVote(e.v2, gov.OPIN_NEGATIVE, 40))
}

func (e *vrEnv) vrFinalize() bool {
	msg := FinalizeProposal{ProposalID: vrPid, ValidatorAddress: e.v1}
	data, _ := msg.Marshal()
	ok, _ := runFinalizeProposal(e.ctx, action.RawTx{Type: action.PROPOSAL_FINALIZE, Data: data})
	return ok
}

// a proposal recorded FAILED (CompletedNo; yes 60 / no 40 against the 67 % in force when the last vote came in) whose own
// PassPercentage is 51: finalize re-runs the tally with 51 and gets PASSED
func vrRecordedFailed(t *testing.T) *vrEnv {
	e := vrSetup(67, vrPassedDist, vrFailedDist)
	p := gov.NewProposal(vrPid, gov.ProposalTypeGeneral, "d", "h", e.proposer, 50, balance.NewAmount(10), 60, 51, "")
	p.Status = gov.ProposalStatusCompleted
	p.Outcome = gov.ProposalOutcomeCompletedNo
	if err := e.ctx.ProposalMasterStore.Proposal.WithPrefixType(gov.ProposalStateFailed).Set(p); err != nil {
		t.Fatal(err)
	}
	e.vrVotes()
	_ = e.ctx.ProposalMasterStore.ProposalFund.AddFunds(vrPid, e.proposer, balance.NewAmount(1000000))
	e.cs.Commit()
	return e
}

// C14.finalize-branch-is-outcome (post#1): the PASSED branch is taken only for a record of the passed store with outcome CompletedYes
func TestVerifReplayC14FinalizeBranchIsOutcomePassed(t *testing.T) {
	e := vrRecordedFailed(t)
	if !e.vrFinalize() {
		t.Skip("finalize refused the record: defect not reproduced")
	}
	if got := vrBal(e.ctx, e.proposer).String(); got != "0" {
		t.Errorf("C14.finalize-branch-is-outcome violated: a proposal recorded as FAILED (outcome CompletedNo, in the failed store) was finalised through the PASSED branch: the proposer received %s from the passed-distribution (the failed-distribution pays the proposer 0)", got)
	}
}

// C14.finalize-branch-is-outcome (post#2): the FAILED branch is taken only for a record of the failed store with outcome CompletedNo
func TestVerifReplayC14FinalizeBranchIsOutcomeFailed(t *testing.T) {
	// recorded PASSED (CompletedYes: yes 60 / no 40 against the 51 % in force at vote time); the proposal's own percentage is 67
	e := vrSetup(51, vrPassedDist, vrFailedDist)
	p := gov.NewProposal(vrPid, gov.ProposalTypeGeneral, "d", "h", e.proposer, 50, balance.NewAmount(10), 60, 67, "")
	p.Status = gov.ProposalStatusCompleted
	p.Outcome = gov.ProposalOutcomeCompletedYes
	_ = e.ctx.ProposalMasterStore.Proposal.WithPrefixType(gov.ProposalStatePassed).Set(p)
	e.vrVotes()
	_ = e.ctx.ProposalMasterStore.ProposalFund.AddFunds(vrPid, e.proposer, balance.NewAmount(1000000))
	e.cs.Commit()
	if !e.vrFinalize() {
		t.Skip("finalize refused the record: defect not reproduced")
	}
	if got := vrBal(e.ctx, e.proposer).String(); got == "0" {
		t.Errorf("C14.finalize-branch-is-outcome violated: a proposal recorded as PASSED (outcome CompletedYes, in the passed store) was finalised through the FAILED branch: the proposer reward of the passed-distribution (18 %% of 1000000) was not paid, balance %s", got)
	}
}

// C14.finalize-leaves-completed-store: after a successful finalize the record is in neither the passed nor the failed store
func TestVerifReplayC14FinalizeLeavesCompletedStore(t *testing.T) {
	e := vrRecordedFailed(t)
	if !e.vrFinalize() {
		t.Skip("finalize refused the record: defect not reproduced")
	}
	if vrHas(e.ctx, gov.ProposalStateFailed) || vrHas(e.ctx, gov.ProposalStatePassed) {
		t.Errorf("C14.finalize-leaves-completed-store violated: finalize succeeded (finalized store: %v) but the record is still in a completed store (failed: %v, passed: %v); AddInternalTX will queue it again every block", vrHas(e.ctx, gov.ProposalStateFinalized), vrHas(e.ctx, gov.ProposalStateFailed), vrHas(e.ctx, gov.ProposalStatePassed))
	}
}

// C14.finalize-leaves-failed: setToFinalizeFailed files the record under finalize-failed and removes it from the store it came from
func TestVerifReplayC14SetToFinalizeFailedLeavesFailed(t *testing.T) {
	e := vrSetup(51, vrPassedDist, vrFailedDist)
	p := gov.NewProposal(vrPid, gov.ProposalTypeGeneral, "d", "h", e.proposer, 50, balance.NewAmount(10), 60, 51, "")
	p.Status = gov.ProposalStatusCompleted
	p.Outcome = gov.ProposalOutcomeCompletedNo
	_ = e.ctx.ProposalMasterStore.Proposal.WithPrefixType(gov.ProposalStateFailed).Set(p)
	e.cs.Commit()
	if err := setToFinalizeFailed(e.ctx, p); err != nil {
		t.Skip("setToFinalizeFailed returned an error: defect not reproduced")
	}
	if vrHas(e.ctx, gov.ProposalStateFailed) {
		t.Errorf("C14.finalize-leaves-failed violated: setToFinalizeFailed returned nil for a proposal read from the FAILED store (finalize-failed store: %v) but the record is still in the FAILED store (it only ever deletes from the PASSED store)", vrHas(e.ctx, gov.ProposalStateFinalizeFailed))
	}
}

// C14.vote-pass-percentage: the vote-time tally uses the pass percentage recorded in the proposal
func TestVerifReplayC14VotePassPercentage(t *testing.T) {
	e := vrSetup(67, vrPassedDist, vrFailedDist) // option in force now: 67 %
	// the proposal was created when the option was 51 % (createProposal forces PassPercentage == option at creation)
	p := gov.NewProposal(vrPid, gov.ProposalTypeGeneral, "d", "h", e.proposer, 50, balance.NewAmount(10), 5000, 51, "")
	p.Status = gov.ProposalStatusVoting
	_ = e.ctx.ProposalMasterStore.Proposal.WithPrefixType(gov.ProposalStateActive).Set(p)
	vs := e.ctx.ProposalMasterStore.ProposalVote
	_ = vs.Setup(vrPid, gov.NewProposalVote(e.v1, gov.OPIN_UNKNOWN, 60))
	_ = vs.Setup(vrPid, gov.NewProposalVote(e.v2, gov.OPIN_UNKNOWN, 40))
	_ = vs.Update(vrPid, gov.NewProposalVote(e.v2, gov.OPIN_NEGATIVE, 40))
	e.cs.Commit()
	msg := VoteProposal{ProposalID: vrPid, Address: e.v1, ValidatorAddress: e.v1, Opinion: gov.OPIN_POSITIVE}
	data, _ := msg.Marshal()
	ok, resp := runVote(e.ctx, action.RawTx{Type: action.PROPOSAL_VOTE, Data: data})
	if !ok {
		t.Skipf("vote refused (%s): defect not reproduced", resp.Log)
	}
	own, err := vs.ResultSoFar(vrPid, p.PassPercentage)
	if err != nil {
		t.Fatal(err)
	}
	if own.Result == gov.VOTE_RESULT_PASSED && !vrHas(e.ctx, gov.ProposalStatePassed) {
		t.Errorf("C14.vote-pass-percentage violated: with yes 60 / no 40 the proposal passes by its recorded PassPercentage (51) but runVote tallied with the option currently in force (67) and moved it elsewhere (failed store: %v, active store: %v); finalize will later re-run the tally with 51", vrHas(e.ctx, gov.ProposalStateFailed), vrHas(e.ctx, gov.ProposalStateActive))
	}
}

// C14.distribute-exact: what distributeFunds pays out plus what it puts in the fee pool equals the recorded total
func TestVerifReplayC14DistributeExact(t *testing.T) {
	e := vrSetup(51, vrPassedDist, vrFailedDist)
	p := gov.NewProposal(vrPid, gov.ProposalTypeGeneral, "d", "h", e.proposer, 50, balance.NewAmount(10), 60, 51, "")
	_ = e.ctx.ProposalMasterStore.ProposalFund.AddFunds(vrPid, e.proposer, balance.NewAmount(1000001))
	e.cs.Commit()
	total := e.ctx.ProposalMasterStore.ProposalFund.GetCurrentFundsForProposal(vrPid)
	d := vrPassedDist
	if err := distributeFunds(e.ctx, p, &d); err != nil {
		t.Skipf("distribution failed (%v): defect not reproduced", err)
	}
	paid := balance.NewAmount(0)
	for _, a := range []keys.Address{e.v1, e.v2, e.proposer, keys.Address("bounty"), keys.Address("exec")} {
		paid = paid.Plus(*vrBal(e.ctx, a))
	}
	pool, _ := e.ctx.FeePool.Get([]byte(fees.POOL_KEY))
	if pool.Amount != nil {
		paid = paid.Plus(*pool.Amount)
	}
	if paid.BigInt().Cmp(total.BigInt()) != 0 {
		t.Errorf("C14.distribute-exact violated: recorded total %s, paid out + fee pool %s (the 18 %% burn share and the validators' rounding remainder are taken off the tracker and go nowhere); fund record after: %s", total, paid, e.ctx.ProposalMasterStore.ProposalFund.GetCurrentFundsForProposal(vrPid))
	}
}
