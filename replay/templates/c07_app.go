package app

// Replays for property C07 ("running the mempool check on any transactions, at any point between any two consensus
// calls, never changes any consensus result"), package app. Injected as app/zz_verif_replay_test.go with `go test -overlay`
// (nothing is written into /repo). Needs `-ldflags=-checklinkname=0` to link.
//
//   D-07a  TestVerifReplayC07FeeOptionFromCheckState   controller.go blockBeginner: app.Context.govern.GetFeeOption() is
//          read through whatever state the last CheckTx aimed the shared governance store at (the check overlay)
//   D-07b  TestVerifReplayC07InternalTxFromCheckState  controller.go blockBeginner: AddInternalTX(app.Context.proposalMaster, ..)
//          scans the proposal stores through the check overlay
//   D-07c  TestVerifReplayC07CheckTxSwitchesFeeOption (and ..SwitchesOnsOptions, ..SwitchesProposalOptions)
//          action/govUpdate.go: the governance update functions end with ctx.FeePool.SetupOpt(..) / ctx.Domains.SetOptions(..) /
//          ctx.ProposalMasterStore.Proposal.SetOptions(..) on the SHARED store objects, and FinalizeProposal.ProcessCheck
//          runs them in CheckTx
//
// How real is it. Every replica is a hand-built *App (the fields NewApp/newContext/Prepare fill, minus rpc, web3, wallet,
// job store and the consensus node) over tm-db MemDB, with the real routers, the real external-app registration and a
// real tendermint BlockStore (MemDB) holding blocks 1 and 2 so that the block-reward code runs. Only the real ABCI
// closures are used to drive it: app.chainInitializer() with a genesis AppState JSON, then for block 1
// app.blockBeginner(), app.txDeliverer() with a real signed PROPOSAL_VOTE transaction (the only validator votes YES,
// which moves the proposal to the passed store with status Completed), app.blockEnder(), app.commitor().
// THE MEMPOOL STEP IS A REAL CheckTx: a real signed PROPOSAL_FINALIZE transaction through app.txChecker(). It is signed
// by "mallory", a key that is neither validator nor proposer and owns no funds: FinalizeProposal.Validate only checks
// that the address named in the payload signed it, ProcessFee charges nothing, ProcessCheck runs runFinalizeProposal.
// (No Action()+write fallback is used anywhere in this file.)
// The node context (app.Context.node) is the zero node.Context on every replica (its fields are unexported), so the
// validator address put into queued internal transactions is empty; it is not compared.
//
// NOTE: package app's own TestMain (application_test.go) calls os.Exit without m.Run(), so no Test function of this
// package is ever executed. The init() below therefore runs the selected replay itself when the test binary is started
// with -test.run matching its name, and exits with status 1 (go test: FAIL) when the defect is present.

import (
	"fmt"
	"os"
	"regexp"
	"strings"
	"syscall"
	"testing"
	"time"

	abciTypes "github.com/tendermint/tendermint/abci/types"
	"github.com/tendermint/tendermint/crypto/ed25519"
	"github.com/tendermint/tendermint/crypto/secp256k1"
	"github.com/tendermint/tendermint/crypto/tmhash"
	tmrpccore "github.com/tendermint/tendermint/rpc/core"
	txindexkv "github.com/tendermint/tendermint/state/txindex/kv"
	tmstore "github.com/tendermint/tendermint/store"
	tmtypes "github.com/tendermint/tendermint/types"
	tmdb "github.com/tendermint/tm-db"

	"github.com/Oneledger/protocol/action"
	"github.com/Oneledger/protocol/action/eth"
	action_pen "github.com/Oneledger/protocol/action/evidence"
	action_gov "github.com/Oneledger/protocol/action/governance"
	action_netwkdeleg "github.com/Oneledger/protocol/action/network_delegation"
	action_olvm "github.com/Oneledger/protocol/action/olvm"
	action_ons "github.com/Oneledger/protocol/action/ons"
	action_rewards "github.com/Oneledger/protocol/action/rewards"
	"github.com/Oneledger/protocol/action/staking"
	"github.com/Oneledger/protocol/action/transfer"
	"github.com/Oneledger/protocol/config"
	"github.com/Oneledger/protocol/consensus"
	"github.com/Oneledger/protocol/data"
	"github.com/Oneledger/protocol/data/balance"
	"github.com/Oneledger/protocol/data/bitcoin"
	"github.com/Oneledger/protocol/data/chain"
	"github.com/Oneledger/protocol/data/delegation"
	"github.com/Oneledger/protocol/data/ethereum"
	"github.com/Oneledger/protocol/data/evidence"
	"github.com/Oneledger/protocol/data/evm"
	"github.com/Oneledger/protocol/data/fees"
	"github.com/Oneledger/protocol/data/governance"
	"github.com/Oneledger/protocol/data/keys"
	netwkDeleg "github.com/Oneledger/protocol/data/network_delegation"
	"github.com/Oneledger/protocol/data/ons"
	"github.com/Oneledger/protocol/data/rewards"
	"github.com/Oneledger/protocol/data/transactions"
	"github.com/Oneledger/protocol/external_apps"
	extcommon "github.com/Oneledger/protocol/external_apps/common"
	"github.com/Oneledger/protocol/identity"
	"github.com/Oneledger/protocol/log"
	"github.com/Oneledger/protocol/storage"
	"github.com/Oneledger/protocol/vm"
)

const (
	vrC07ChainID     = "vrC07-chain"
	vrC07OldDecimal  = int64(9) // genesis fee option: minimal fee price 10^(18-9) = 10^9
	vrC07NewDecimal  = int64(8) // the proposal changes it to 10^(18-8) = 10^10
	vrC07OldMinPrice = int64(1000000000)
	vrC07LogLevel    = 1 // errors only; the hooks log at info/detail for every block
)

// 64 characters, the length of a hex sha256 (ProposalID.Err)
var vrC07ProposalID = governance.ProposalID(strings.Repeat("c07a", 16))

// ---- deterministic actors (both replicas must reach byte-identical states)

type vrC07Actor struct {
	pub  keys.PublicKey
	priv keys.PrivateKey
	addr keys.Address
}

func vrC07NewActor(secret string) vrC07Actor {
	tmPriv := ed25519.GenPrivKeyFromSecret([]byte(secret))
	// 5 = size of the amino prefix, as in keys.NewKeyPairFromTendermint
	pub, err := keys.GetPublicKeyFromBytes(tmPriv.PubKey().Bytes()[5:], keys.ED25519)
	if err != nil {
		panic(err)
	}
	priv, err := keys.GetPrivateKeyFromBytes(tmPriv.Bytes()[5:], keys.ED25519)
	if err != nil {
		panic(err)
	}
	h, err := pub.GetHandler()
	if err != nil {
		panic(err)
	}
	return vrC07Actor{pub: pub, priv: priv, addr: h.Address()}
}

var (
	vrC07Validator = vrC07NewActor("vrC07 validator consensus key")
	vrC07Alice     = vrC07NewActor("vrC07 alice: proposer, voter account of the validator, sender")
	vrC07Bob       = vrC07NewActor("vrC07 bob: receiver")
	vrC07Mallory   = vrC07NewActor("vrC07 mallory: no funds, not a validator, not the proposer")
)

// ---- a tendermint block store with blocks 1..n (the reward calculator reads the time of block 1 from it)

var vrC07Time0 = time.Unix(1600000000, 0).UTC()

type vrC07Block struct {
	hash []byte
	time time.Time
}

func vrC07BlockStore(n int64) (*tmstore.BlockStore, map[int64]vrC07Block) {
	bs := tmstore.NewBlockStore(tmdb.NewDB("vrC07blockstore", tmdb.MemDBBackend, ""))
	blocks := map[int64]vrC07Block{}
	lastID := tmtypes.BlockID{}
	for h := int64(1); h <= n; h++ {
		lastCommit := tmtypes.NewCommit(h-1, 0, lastID, nil)
		block := tmtypes.MakeBlock(h, nil, lastCommit, nil)
		block.Header.ChainID = vrC07ChainID
		block.Header.Time = vrC07Time0.Add(time.Duration(h) * 15 * time.Second)
		block.Header.ValidatorsHash = tmhash.Sum([]byte("vrC07 validators"))
		block.Header.ProposerAddress = []byte(vrC07Validator.addr)
		parts := block.MakePartSet(tmtypes.BlockPartSizeBytes)
		lastID = tmtypes.BlockID{Hash: block.Hash(), PartsHeader: parts.Header()}
		bs.SaveBlock(block, parts, tmtypes.NewCommit(h, 0, lastID, nil))
		blocks[h] = vrC07Block{hash: block.Hash(), time: block.Header.Time}
	}
	return bs, blocks
}

// ---- the application, built by hand the way NewApp / newContext / Prepare build it

type vrC07Replica struct {
	name   string
	app    *App
	blocks map[int64]vrC07Block
}

func vrC07NewApp(name string) (*App, map[int64]vrC07Block, error) {
	cfg := config.DefaultServerConfig()
	cfg.Node.NodeName = name
	cfg.Node.LogLevel = vrC07LogLevel
	w := os.Stdout

	// newContext, with MemDB instead of GetDatabase(..) and without rpc/web3/wallet/jobStore/lockScriptStore/jobBus
	ctx := context{cfg: *cfg, logWriter: w, currencies: balance.NewCurrencySet()}
	db := tmdb.NewDB("chainstate", tmdb.MemDBBackend, "")
	ctx.db = db
	ctx.chainstate = storage.NewChainState("chainstate", db)
	if err := ctx.chainstate.SetupRotation(ctx.cfg.Node.ChainStateRotation); err != nil {
		return nil, nil, err
	}
	ctx.deliver = storage.NewState(ctx.chainstate)
	ctx.check = storage.NewState(ctx.chainstate)

	ctx.validators = identity.NewValidatorStore("v", "purged", storage.NewState(ctx.chainstate))
	ctx.witnesses = identity.NewWitnessStore("w", storage.NewState(ctx.chainstate))
	ctx.balances = balance.NewStore("b", storage.NewState(ctx.chainstate))
	ctx.domains = ons.NewDomainStore("d", storage.NewState(ctx.chainstate))
	ctx.feePool = fees.NewStore("f", storage.NewState(ctx.chainstate))
	ctx.govern = governance.NewStore("g", storage.NewState(ctx.chainstate))
	ctx.proposalMaster = NewProposalMasterStore(ctx.chainstate)
	ctx.delegators = delegation.NewDelegationStore("st", storage.NewState(ctx.chainstate))
	ctx.netwkDelegators = netwkDeleg.NewMasterStore("deleg", "delegRwz", storage.NewState(ctx.chainstate))
	ctx.evidenceStore = evidence.NewEvidenceStore("es", storage.NewState(ctx.chainstate))
	ctx.rewardMaster = NewRewardMasterStore(ctx.chainstate)
	ctx.btcTrackers = bitcoin.NewTrackerStore("btct", storage.NewState(ctx.chainstate))
	ctx.transaction = transactions.NewTransactionStore("intx",
		storage.NewState(storage.NewChainState("chainstateTX", tmdb.NewDB("internaltxdb", tmdb.MemDBBackend, ""))))
	ctx.ethTrackers = ethereum.NewTrackerStore("etht", "ethfailed", "ethsuccess", storage.NewState(ctx.chainstate))

	ctx.actionRouter = action.NewRouter("action")
	ctx.internalRouter = action.NewRouter("internal")
	ctx.extStores = data.NewStorageRouter()
	ctx.extServiceMap = extcommon.NewExtServiceMap()
	ctx.extFunctions = extcommon.NewFunctionRouter()

	ctx.contracts = evm.NewContractStore(storage.NewState(ctx.chainstate))
	ctx.accountKeeper = balance.NewNesterAccountKeeper(storage.NewState(ctx.chainstate), ctx.balances, ctx.currencies)
	ctx.stateDB = vm.NewCommitStateDB(ctx.contracts, ctx.accountKeeper,
		log.NewLoggerWithPrefix(w, "stateDB").WithLevel(log.Level(vrC07LogLevel)))

	if err := external_apps.RegisterExtApp(ctx.chainstate, ctx.actionRouter, ctx.extStores, ctx.extServiceMap, ctx.extFunctions); err != nil {
		return nil, nil, err
	}
	ctx.govupdate = action.NewGovUpdate()

	_ = transfer.EnableSend(ctx.actionRouter)
	_ = action_olvm.EnableOLVM(ctx.actionRouter)
	_ = action_ons.EnableONS(ctx.actionRouter)
	_ = eth.EnableETH(ctx.actionRouter)
	_ = eth.EnableInternalETH(ctx.internalRouter)
	_ = action_rewards.EnableRewards(ctx.actionRouter)
	_ = action_netwkdeleg.EnableNetworkDelegation(ctx.actionRouter)
	_ = action_gov.EnableGovernance(ctx.actionRouter)
	_ = action_gov.EnableInternalGovernance(ctx.internalRouter)
	_ = staking.EnableStaking(ctx.actionRouter)
	_ = action_pen.EnablePenalization(ctx.actionRouter)

	// NewApp
	app := &App{
		name:     "OneLedger",
		nodeName: name,
		logger:   log.NewLoggerWithPrefix(w, "app").WithLevel(log.Level(vrC07LogLevel)),
		Context:  ctx,
	}
	app.setNewABCI()

	// Prepare: genesis doc (default consensus and fork parameters) and the block store
	app.genesisDoc = &config.GenesisDoc{
		GenesisTime:     vrC07Time0,
		ChainID:         vrC07ChainID,
		ConsensusParams: tmtypes.DefaultConsensusParams(),
		ForkParams:      config.DefaultForkParams(),
	}
	bs, blocks := vrC07BlockStore(2)
	app.Context.SetBlockStore(bs)
	return app, blocks, nil
}

// ---- genesis: one validator, alice funded, one proposal in the ACTIVE store, status Voting, fully funded, the only
// validator has not voted yet

func vrC07Amount(s string) *balance.Amount {
	a, err := balance.NewAmountFromString(s, 10)
	if err != nil {
		panic(err)
	}
	return a
}

func vrC07Genesis(propType governance.ProposalType, update string) ([]byte, error) {
	olt := balance.Currency{Id: 0, Name: "OLT", Chain: chain.ONELEDGER, Decimal: 18, Unit: "nue"}
	passed := governance.ProposalFundDistribution{Validators: 18, FeePool: 18, Burn: 18, ExecutionCost: 18, BountyPool: 10, ProposerReward: 18}
	failed := governance.ProposalFundDistribution{Validators: 10, FeePool: 10, Burn: 10, ExecutionCost: 20, BountyPool: 50, ProposerReward: 0}
	popt := func(cost string) governance.ProposalOption {
		return governance.ProposalOption{
			InitialFunding: vrC07Amount("1000000000"), FundingGoal: vrC07Amount("10000000000"),
			FundingDeadline: 75001, VotingDeadline: 150000, PassPercentage: 51,
			PassedFundDistribution: passed, FailedFundDistribution: failed, ProposalExecutionCost: cost,
		}
	}
	ecdsa := secp256k1.GenPrivKeySecp256k1([]byte("vrC07 validator ecdsa key"))
	ecdsaPub, err := keys.GetPublicKeyFromBytes(ecdsa.PubKey().Bytes()[5:], keys.SECP256K1)
	if err != nil {
		return nil, err
	}
	state := consensus.AppState{
		Currencies: balance.Currencies{olt},
		Balances: []consensus.BalanceState{
			{Address: vrC07Alice.addr, Currency: "OLT", Amount: *vrC07Amount("1000000000000000000000")},
			{Address: keys.Address("rewardpool"), Currency: "OLT", Amount: *vrC07Amount("100000000000000000000000000")},
		},
		Staking: []consensus.Stake{{
			ValidatorAddress: vrC07Validator.addr,
			StakeAddress:     vrC07Alice.addr,
			Pubkey:           vrC07Validator.pub,
			ECDSAPubKey:      ecdsaPub,
			Name:             "vrC07validator",
			Amount:           *balance.NewAmountFromInt(1000000),
		}},
		Rewards: rewards.RewardMasterState{RewardState: rewards.NewRewardState(), CumuState: rewards.NewRewardCumuState()},
		Domains: []consensus.DomainState{},
		Fees:    []consensus.BalanceState{},
		Governance: governance.GovernanceState{
			FeeOption: fees.FeeOption{FeeCurrency: olt, MinFeeDecimal: vrC07OldDecimal},
			ONSOptions: ons.Options{Currency: "OLT", PerBlockFees: *vrC07Amount("100000000000000"),
				FirstLevelDomains: []string{"ol"}, BaseDomainPrice: *vrC07Amount("1000000000000000000")}, // <= MaxInt64, else ValidateONS rejects every ons update
			PropOptions: governance.ProposalOptionSet{
				ConfigUpdate: popt("executionCostConfig"), CodeChange: popt("executionCostCodeChange"),
				General: popt("executionCostGeneral"), BountyProgramAddr: "oneledgerBountyProgram",
			},
			StakingOptions: delegation.Options{MinSelfDelegationAmount: *balance.NewAmount(500000),
				MinDelegationAmount: *balance.NewAmount(1), TopValidatorCount: 8, MaturityTime: 109200},
			DelegOptions: netwkDeleg.Options{RewardsMaturityTime: 109200},
			EvidenceOptions: evidence.Options{MinVotesRequired: 900, BlockVotesDiff: 1000,
				PenaltyBasePercentage: 30, PenaltyBaseDecimals: 100, PenaltyBountyPercentage: 50, PenaltyBountyDecimals: 100,
				PenaltyBurnPercentage: 50, PenaltyBurnDecimals: 100, ValidatorReleaseTime: 0, ValidatorVotePercentage: 50,
				ValidatorVoteDecimals: 100, AllegationPercentage: 50, AllegationDecimals: 100},
			RewardOptions: rewards.Options{RewardInterval: 150, RewardPoolAddress: "rewardpool", RewardCurrency: "OLT",
				EstimatedSecondsPerCycle: 1728, BlockSpeedCalculateCycle: 100, YearCloseWindow: 3600 * 24,
				YearBlockRewardShares: []balance.Amount{*vrC07Amount("70000000000000000000000000"), *vrC07Amount("70000000000000000000000000"),
					*vrC07Amount("40000000000000000000000000"), *vrC07Amount("40000000000000000000000000"), *vrC07Amount("30000000000000000000000000")},
				BurnoutRate: *vrC07Amount("5000000000000000000")},
		},
		Proposals: []governance.GovProposal{{
			Prop: governance.Proposal{
				ProposalID: vrC07ProposalID, Type: propType, Status: governance.ProposalStatusVoting,
				Outcome: governance.ProposalOutcomeInProgress, Headline: "vrC07", Description: "vrC07 replay proposal",
				Proposer: vrC07Alice.addr, FundingDeadline: 75001, FundingGoal: vrC07Amount("10000000000"),
				VotingDeadline: 150000, PassPercentage: 51, GovernanceStateUpdate: update,
			},
			ProposalVotes: []*governance.ProposalVote{governance.NewProposalVote(vrC07Validator.addr, governance.OPIN_UNKNOWN, 1000000)},
			ProposalFunds: []governance.ProposalFund{{Id: vrC07ProposalID, Address: vrC07Alice.addr, FundingAmount: vrC07Amount("10000000000")}},
			State:         governance.ProposalStateActive,
		}},
	}
	return state.RawJSON()
}

// ---- real signed transactions

func vrC07SignedTx(typ action.Type, payload []byte, feePrice int64, memo string, signers ...vrC07Actor) []byte {
	raw := action.RawTx{
		Type: typ,
		Data: payload,
		Fee:  action.Fee{Price: action.Amount{Currency: "OLT", Value: *balance.NewAmount(feePrice)}, Gas: 1000000},
		Memo: memo,
	}
	msg := raw.RawBytes()
	sigs := make([]action.Signature, 0, len(signers))
	for _, s := range signers {
		h, err := s.priv.GetHandler()
		if err != nil {
			panic(err)
		}
		sg, err := h.Sign(msg)
		if err != nil {
			panic(err)
		}
		sigs = append(sigs, action.Signature{Signer: s.pub, Signed: sg})
	}
	signed := action.SignedTx{RawTx: raw, Signatures: sigs}
	return signed.SignedBytes()
}

// the validator (consensus key) and its account alice vote YES
func vrC07VoteTx() []byte {
	vote := &action_gov.VoteProposal{ProposalID: vrC07ProposalID, Address: vrC07Alice.addr,
		ValidatorAddress: vrC07Validator.addr, Opinion: governance.OPIN_POSITIVE}
	payload, err := vote.Marshal()
	if err != nil {
		panic(err)
	}
	return vrC07SignedTx(action.PROPOSAL_VOTE, payload, vrC07OldMinPrice, "vrC07 vote", vrC07Alice, vrC07Validator)
}

// mallory names herself as "validator address" of a finalize transaction and signs it; zero fee
func vrC07FinalizeTx() []byte {
	fin := &action_gov.FinalizeProposal{ProposalID: vrC07ProposalID, ValidatorAddress: vrC07Mallory.addr}
	payload, err := fin.Marshal()
	if err != nil {
		panic(err)
	}
	return vrC07SignedTx(action.PROPOSAL_FINALIZE, payload, 0, "vrC07 finalize by mallory", vrC07Mallory)
}

// alice sends 1 OLT to bob, paying exactly the minimal fee price of the committed fee option (10^9)
func vrC07SendTx() []byte {
	send := &transfer.Send{From: vrC07Alice.addr, To: vrC07Bob.addr,
		Amount: action.Amount{Currency: "OLT", Value: *vrC07Amount("1000000000000000000")}}
	payload, err := send.Marshal()
	if err != nil {
		panic(err)
	}
	return vrC07SignedTx(action.SEND, payload, vrC07OldMinPrice, "vrC07 send", vrC07Alice)
}

// ---- driving a replica through the real ABCI closures

func (r *vrC07Replica) beginReq(h int64) RequestBeginBlock {
	req := RequestBeginBlock{
		Hash: r.blocks[h].hash,
		Header: Header{ChainID: vrC07ChainID, Height: h, Time: r.blocks[h].time,
			AppHash: r.app.Context.chainstate.Hash, ProposerAddress: []byte(vrC07Validator.addr)},
	}
	if h > 1 {
		req.LastCommitInfo = abciTypes.LastCommitInfo{Votes: []abciTypes.VoteInfo{{
			Validator: abciTypes.Validator{Address: []byte(vrC07Validator.addr), Power: 1000000}, SignedLastBlock: true}}}
	}
	return req
}

func (r *vrC07Replica) begin(h int64) ResponseBeginBlock { return r.app.blockBeginner()(r.beginReq(h)) }
func (r *vrC07Replica) deliver(tx []byte) ResponseDeliverTx {
	return r.app.txDeliverer()(RequestDeliverTx{Tx: tx})
}
func (r *vrC07Replica) check(tx []byte) ResponseCheckTx {
	return r.app.txChecker()(RequestCheckTx{Tx: tx})
}

// THE mempool step: mallory's real signed PROPOSAL_FINALIZE through the real CheckTx closure. Returns "" when the
// mempool accepted it and the handler finalized the proposal (in the check state).
func (r *vrC07Replica) mempoolFinalize() string {
	chk := r.check(vrC07FinalizeTx())
	if chk.Code != CodeOK.uint32() {
		return "replay setup failed: CheckTx(finalize) rejected on " + r.name + ": " + chk.Log
	}
	if !strings.Contains(fmt.Sprintf("%v", chk.Events), "finalize_proposal_success") {
		// e.g. ConfigUpdate_Validation_Failed: the update function refused the value, nothing was finalized
		return "replay setup failed: CheckTx(finalize) on " + r.name + " did not finalize the proposal: " + fmt.Sprintf("%v %s", chk.Events, chk.Log)
	}
	return ""
}
func (r *vrC07Replica) end(h int64) ResponseEndBlock {
	return r.app.blockEnder()(RequestEndBlock{Height: h})
}
func (r *vrC07Replica) commit() string {
	return fmt.Sprintf("%X", r.app.commitor()().Data)
}

// vrC07NewReplica: InitChain, then block 1 = BeginBlock, DeliverTx(vote YES), EndBlock, Commit.
// Afterwards the proposal sits in the PASSED store with status Completed / outcome CompletedYes, committed at height 1;
// the honest continuation is: BeginBlock(2) queues the internal finalize transaction, EndBlock(2) runs it.
func vrC07NewReplica(name string, propType governance.ProposalType, update string) (*vrC07Replica, error) {
	app, blocks, err := vrC07NewApp(name)
	if err != nil {
		return nil, err
	}
	r := &vrC07Replica{name: name, app: app, blocks: blocks}
	gen, err := vrC07Genesis(propType, update)
	if err != nil {
		return nil, err
	}
	initResp := app.chainInitializer()(RequestInitChain{
		Time: vrC07Time0, ChainId: vrC07ChainID, AppStateBytes: gen,
		Validators: []abciTypes.ValidatorUpdate{{PubKey: vrC07Validator.pub.GetABCIPubKey(), Power: 1000000}},
	})
	if len(initResp.Validators) != 1 {
		return nil, fmt.Errorf("%s: InitChain failed (no validators returned)", name)
	}
	r.begin(1)
	if resp := r.deliver(vrC07VoteTx()); resp.Code != CodeOK.uint32() {
		return nil, fmt.Errorf("%s: block 1 DeliverTx(vote) failed: %s", name, resp.Log)
	}
	r.end(1)
	r.commit()
	p, err := app.Context.proposalMaster.WithState(app.Context.deliver).Proposal.WithPrefixType(governance.ProposalStatePassed).Get(vrC07ProposalID)
	if err != nil || p.Status != governance.ProposalStatusCompleted {
		return nil, fmt.Errorf("%s: after block 1 the proposal is not passed+completed (%v)", name, err)
	}
	return r, nil
}

// ---- observables

func (r *vrC07Replica) feeOpt() string {
	opt := r.app.Context.feePool.GetOpt()
	if opt == nil {
		return "<nil fee option>"
	}
	// do not call MinFee() on the live object: it caches; compute on a copy of the exported fields
	c := fees.FeeOption{FeeCurrency: opt.FeeCurrency, MinFeeDecimal: opt.MinFeeDecimal}
	return fmt.Sprintf("minFeeDecimal=%d minFee=%s", opt.MinFeeDecimal, c.MinFee().String())
}

func (r *vrC07Replica) queue() string {
	items := []string{}
	r.app.Context.transaction.IterateExpired(func(key string, tx *abciTypes.RequestDeliverTx) bool {
		e := action_gov.ExpireVotes{}
		_ = e.Unmarshal(tx.Tx)
		items = append(items, "expire("+string(e.ProposalID)+")")
		return false
	})
	r.app.Context.transaction.IterateFinalized(func(key string, tx *abciTypes.RequestDeliverTx) bool {
		f := action_gov.FinalizeProposal{}
		_ = f.Unmarshal(tx.Tx)
		items = append(items, "finalize("+string(f.ProposalID)+")")
		return false
	})
	return "[" + strings.Join(items, " ") + "]"
}

func vrC07Deliver(resp ResponseDeliverTx) string {
	return fmt.Sprintf("code=%d log=%q", resp.Code, resp.Log)
}

func vrC07Setup() {
	// VerifyCache / GetTxFromCache ask tendermint's rpc core for the transaction; a running node has an indexer there
	tmrpccore.SetTxIndexer(txindexkv.NewTxIndex(tmdb.NewDB("vrC07txindex", tmdb.MemDBBackend, "")))
}

// ---- D-07a

// Two replicas with identical histories up to Commit(1). Replica B's mempool then checks mallory's finalize transaction
// (real CheckTx): in the CHECK state the ConfigUpdate proposal is finalized, i.e. feeOption.minFeeDecimal 9 -> 8 is
// written to the governance store's check overlay (and CheckTx leaves the shared governance store aimed at that overlay).
// Both replicas then run the same BeginBlock(2). Compared: the fee option BeginBlock installed in app.Context.feePool
// (which every DeliverTx of the block validates fees against), and the result of delivering the same SEND transaction
// that pays exactly the committed minimal fee price.
func vrC07FeeOptionFromCheckState() string {
	vrC07Setup()
	upd := fmt.Sprintf("feeOption.minFeeDecimal:%d", vrC07NewDecimal)
	a, err := vrC07NewReplica("A", governance.ProposalTypeConfigUpdate, upd)
	if err != nil {
		return "replay setup failed: " + err.Error()
	}
	b, err := vrC07NewReplica("B", governance.ProposalTypeConfigUpdate, upd)
	if err != nil {
		return "replay setup failed: " + err.Error()
	}
	if ha, hb := fmt.Sprintf("%X", a.app.Context.chainstate.Hash), fmt.Sprintf("%X", b.app.Context.chainstate.Hash); ha != hb {
		return "replay setup failed: replicas differ after block 1: " + ha + " / " + hb
	}

	if msg := b.mempoolFinalize(); msg != "" { // the only difference between the replicas
		return msg
	}

	a.begin(2)
	b.begin(2)
	fa, fb := a.feeOpt(), b.feeOpt()
	da, db := vrC07Deliver(a.deliver(vrC07SendTx())), vrC07Deliver(b.deliver(vrC07SendTx()))
	vrC07Note("vrC07 D-07a: fee option after BeginBlock(2): A {%s}  B {%s}", fa, fb)
	vrC07Note("vrC07 D-07a: DeliverTx(send, fee price 10^9) in block 2: A {%s}  B {%s}", da, db)
	if fa != fb || da != db {
		return "C07 violated: a CheckTx (PROPOSAL_FINALIZE signed by a non-validator, no funds) on replica B between Commit(1) and " +
			"BeginBlock(2) changed consensus results: fee option installed by BeginBlock(2): A {" + fa + "} vs B {" + fb + "}; " +
			"DeliverTx of the same SEND paying the committed minimal fee in block 2: A {" + da + "} vs B {" + db + "} " +
			"(blockBeginner reads app.Context.govern.GetFeeOption() through the check overlay)"
	}
	return ""
}

// ---- D-07b

// Same history, but the proposal is of type General (finalizing it touches no governance option, so D-07a and D-07c play
// no role). Replica B's mempool checks mallory's finalize transaction: in the CHECK state the proposal moves from the
// passed store to the finalized store. Both replicas then run the same BeginBlock(2). Compared: the internal transaction
// queue BeginBlock built (what EndBlock will execute), then EndBlock(2) + Commit and the app hash.
func vrC07InternalTxFromCheckState() string {
	vrC07Setup()
	a, err := vrC07NewReplica("A", governance.ProposalTypeGeneral, "")
	if err != nil {
		return "replay setup failed: " + err.Error()
	}
	b, err := vrC07NewReplica("B", governance.ProposalTypeGeneral, "")
	if err != nil {
		return "replay setup failed: " + err.Error()
	}
	if ha, hb := fmt.Sprintf("%X", a.app.Context.chainstate.Hash), fmt.Sprintf("%X", b.app.Context.chainstate.Hash); ha != hb {
		return "replay setup failed: replicas differ after block 1: " + ha + " / " + hb
	}

	if msg := b.mempoolFinalize(); msg != "" { // the only difference between the replicas
		return msg
	}

	a.begin(2)
	b.begin(2)
	qa, qb := a.queue(), b.queue()
	a.end(2)
	b.end(2)
	ha, hb := a.commit(), b.commit()
	vrC07Note("vrC07 D-07b: internal tx queue after BeginBlock(2): A %s  B %s", qa, qb)
	vrC07Note("vrC07 D-07b: app hash after Commit(2): A %s  B %s", ha, hb)
	if qa != qb || ha != hb {
		return "C07 violated: a CheckTx (PROPOSAL_FINALIZE signed by a non-validator, no funds) on replica B between Commit(1) and " +
			"BeginBlock(2) changed consensus results: internal transaction queue built by BeginBlock(2): A " + qa + " vs B " + qb +
			"; app hash after EndBlock(2)+Commit: A " + ha + " vs B " + hb +
			" (blockBeginner passes app.Context.proposalMaster to AddInternalTX aimed at the check overlay)"
	}
	return ""
}

// ---- D-07c

// Two replicas, committed at height 1, BeginBlock(2) done on both (the block is open; the option caches of the shared
// stores hold the committed governance options). Then replica B's mempool checks mallory's finalize transaction; NO
// consensus call happens. Compared: the option cache of the shared store object (which the DeliverTx handlers of the
// open block read) before and after the CheckTx. For the fee option also the consequence: replica A, which ran the same
// consensus calls but not the CheckTx, delivers the same SEND (paying the committed minimal fee) differently.
// This one is not repaired by re-aiming stores in blockBeginner: the cache is a plain field of the shared object.
func vrC07CheckTxSwitchesOption(update, field, culprit string, observe func(r *vrC07Replica) string, withSend bool) string {
	vrC07Setup()
	a, err := vrC07NewReplica("A", governance.ProposalTypeConfigUpdate, update)
	if err != nil {
		return "replay setup failed: " + err.Error()
	}
	b, err := vrC07NewReplica("B", governance.ProposalTypeConfigUpdate, update)
	if err != nil {
		return "replay setup failed: " + err.Error()
	}
	a.begin(2)
	b.begin(2)

	before := observe(b)
	if msg := b.mempoolFinalize(); msg != "" { // mempool only
		return msg
	}
	after, other := observe(b), observe(a)
	vrC07Note("vrC07 D-07c: %s on B: before CheckTx {%s}  after CheckTx {%s}; on A (no CheckTx) {%s}", field, before, after, other)

	consequence := ""
	differs := before != after
	if withSend {
		da, db := vrC07Deliver(a.deliver(vrC07SendTx())), vrC07Deliver(b.deliver(vrC07SendTx()))
		vrC07Note("vrC07 D-07c: DeliverTx(send, fee price 10^9) in block 2: A {%s}  B {%s}", da, db)
		consequence = "; DeliverTx of the same SEND paying the committed minimal fee: replica without the CheckTx {" + da + "} vs replica with it {" + db + "}"
		differs = differs || da != db
	}
	if differs {
		return "C07 violated: a CheckTx (PROPOSAL_FINALIZE signed by a non-validator, no funds) between BeginBlock(2) and the DeliverTx calls " +
			"of block 2 switched " + field + " of the shared store object that the DeliverTx handlers read, with no consensus call in between: " +
			"before {" + before + "} after {" + after + "}" + consequence + " (" + culprit + ", and FinalizeProposal.ProcessCheck runs it in CheckTx)"
	}
	return ""
}

func vrC07CheckTxSwitchesFeeOption() string {
	return vrC07CheckTxSwitchesOption(fmt.Sprintf("feeOption.minFeeDecimal:%d", vrC07NewDecimal),
		"fees.Store.feeOpt (app.Context.feePool.GetOpt())", "action.feeOptionminFeeDecimal ends with ctx.FeePool.SetupOpt(..)",
		func(r *vrC07Replica) string { return r.feeOpt() }, true)
}

func vrC07CheckTxSwitchesOnsOptions() string {
	return vrC07CheckTxSwitchesOption("onsOptions.perBlockFees:200000000000000",
		"ons.DomainStore.opt (app.Context.domains.GetOptions())", "action.onsOptionsperBlockFees ends with ctx.Domains.SetOptions(..)",
		func(r *vrC07Replica) string {
			o := r.app.Context.domains.GetOptions()
			if o == nil {
				return "<nil ons options>"
			}
			return "perBlockFees=" + o.PerBlockFees.String()
		}, false)
}

func vrC07CheckTxSwitchesProposalOptions() string {
	return vrC07CheckTxSwitchesOption("propOptions.general.passPercentage:60",
		"governance.ProposalStore.proposalOptions (app.Context.proposalMaster.Proposal.GetOptions())",
		"action.propOptionsgeneralpassPercentage ends with ctx.ProposalMasterStore.Proposal.SetOptions(..)",
		func(r *vrC07Replica) string {
			o := r.app.Context.proposalMaster.Proposal.GetOptions()
			if o == nil {
				return "<nil proposal options>"
			}
			return fmt.Sprintf("general.passPercentage=%d", o.General.PassPercentage)
		}, false)
}

// ---- tests and the TestMain workaround

var vrC07Notes []string

func vrC07Note(format string, args ...interface{}) {
	vrC07Notes = append(vrC07Notes, fmt.Sprintf(format, args...))
}

// vrC07Run runs a replay with file descriptor 1 redirected to a temporary file: the node's loggers (many of them
// package-level, bound to os.Stdout) are noisy, and the harness keeps only the head of the output. The verdict and the
// observed values are printed first, the captured node log after them.
func vrC07Run(run func() string) (msg string, report string) {
	vrC07Notes = nil
	captured := ""
	f, err := os.CreateTemp("", "vrC07-log-")
	saved := -1
	if err == nil {
		saved, err = syscall.Dup(1)
	}
	if err == nil {
		err = syscall.Dup3(int(f.Fd()), 1, 0)
	}
	if err != nil {
		msg = run() // no capture possible: run with the log on stdout
	} else {
		msg = run()
		_ = syscall.Dup3(saved, 1, 0)
		_ = syscall.Close(saved)
		if data, rerr := os.ReadFile(f.Name()); rerr == nil {
			captured = string(data)
		}
	}
	if f != nil {
		f.Close()
		os.Remove(f.Name())
	}
	report = strings.Join(vrC07Notes, "\n")
	if captured != "" {
		report += "\n---- node log during the replay ----\n" + captured
	}
	return msg, report
}

var vrC07Replays = []struct {
	name string
	run  func() string
}{
	{"TestVerifReplayC07FeeOptionFromCheckState", vrC07FeeOptionFromCheckState},
	{"TestVerifReplayC07InternalTxFromCheckState", vrC07InternalTxFromCheckState},
	{"TestVerifReplayC07CheckTxSwitchesFeeOption", vrC07CheckTxSwitchesFeeOption},
	{"TestVerifReplayC07CheckTxSwitchesOnsOptions", vrC07CheckTxSwitchesOnsOptions},
	{"TestVerifReplayC07CheckTxSwitchesProposalOptions", vrC07CheckTxSwitchesProposalOptions},
}

func vrC07Test(t *testing.T, i int) {
	msg, report := vrC07Run(vrC07Replays[i].run)
	if msg != "" {
		t.Errorf("%s", msg)
	}
	t.Log(report)
}

func TestVerifReplayC07FeeOptionFromCheckState(t *testing.T)        { vrC07Test(t, 0) }
func TestVerifReplayC07InternalTxFromCheckState(t *testing.T)       { vrC07Test(t, 1) }
func TestVerifReplayC07CheckTxSwitchesFeeOption(t *testing.T)       { vrC07Test(t, 2) }
func TestVerifReplayC07CheckTxSwitchesOnsOptions(t *testing.T)      { vrC07Test(t, 3) }
func TestVerifReplayC07CheckTxSwitchesProposalOptions(t *testing.T) { vrC07Test(t, 4) }

// see the NOTE at the top: TestMain of this package never runs the Test functions
func init() {
	for i, a := range os.Args {
		pat := ""
		if strings.HasPrefix(a, "-test.run=") {
			pat = strings.TrimPrefix(a, "-test.run=")
		} else if a == "-test.run" && i+1 < len(os.Args) {
			pat = os.Args[i+1]
		}
		if pat == "" {
			continue
		}
		re, err := regexp.Compile(pat)
		if err != nil {
			return
		}
		failed := false
		for _, rp := range vrC07Replays {
			if !re.MatchString(rp.name) {
				continue
			}
			fmt.Printf("=== RUN   %s\n", rp.name)
			msg, report := vrC07Run(rp.run)
			if msg != "" {
				fmt.Printf("--- FAIL: %s\n    %s\n", rp.name, msg)
				failed = true
			} else {
				fmt.Printf("--- PASS: %s\n", rp.name)
			}
			fmt.Println(report)
		}
		if failed {
			fmt.Println("FAIL")
			os.Exit(1)
		}
	}
}
