package bid_action

// Replay for the known-failing clause C07.bid-prefix of CloseBidConv (every return path leaves the cursor of the shared
// conversation store on ACTIVE). Function-level: the failing path needs BidConvStore.Set to fail; here it fails because
// the State has no transaction session open and its gas limit is exhausted (inside a session State.Set cannot fail).

import (
	"testing"

	db "github.com/tendermint/tm-db"

	"github.com/Oneledger/protocol/data/keys"
	"github.com/Oneledger/protocol/external_apps/bid/bid_data"
	"github.com/Oneledger/protocol/storage"
)

func TestVerifReplayC07BidCursorLeftOnTargetAfterFailedClose(t *testing.T) {
	cs := storage.NewChainState("chainstate", db.NewDB("c07bid", db.MemDBBackend, ""))
	state := storage.NewState(cs)
	ms := bid_data.NewBidMasterStore(cs)
	ms.WithState(state)

	owner, bidder := keys.Address("owner-owner-owner-own"), keys.Address("bidder-bidder-bidder-")
	conv := bid_data.NewBidConv(owner, "a.ol", bid_data.BidAssetExample, bidder, 1, 1)
	if err := ms.BidConv.WithPrefixType(bid_data.BidStateActive).Set(conv); err != nil {
		t.Fatal(err)
	}
	state.Commit()

	count := func() int {
		n := 0
		ms.BidConv.Iterate(func(id bid_data.BidConvId, c *bid_data.BidConv) bool { n++; return false })
		return n
	}
	if got := count(); got != 1 {
		t.Fatalf("setup: the hook's scan (no key space selected) should see the one ACTIVE conversation, sees %d", got)
	}

	// a State whose gas limit is used up and that has no tx session: Set fails
	gc := storage.NewGasCalculator(1)
	gc.Consume(1, storage.WRITEFLAT, true)
	limited := storage.NewState(cs).WithGas(gc)
	ms.WithState(limited)
	err := CloseBidConv(conv, ms, bid_data.BidStateCancelled)
	if err == nil {
		t.Skip("Set did not fail in this configuration: path not exercised")
	}
	ms.WithState(state)
	if got := count(); got != 1 {
		t.Fatalf("C07.bid-prefix violated: after a FAILED CloseBidConv (%v) the cursor is off ACTIVE: the block-begin scan sees %d conversations instead of 1", err, got)
	}
}
