package governance

// Replays for the iter-stop obligations the real code violates in data/governance (C14.fund-scan / C14.proposal-scan):
// the scan wrappers `return true` (= stop the whole scan) when a value does not decode. State.IterateRange takes its keys
// from the committed tree and its values from State.Get, so a record deleted earlier in the same block is still visited,
// with the tombstone as value — which does not decode. Every later record of the scan is silently cut off.
// Injected as data/governance/zz_verif_replay_test.go; builds its own MemDB state.

import (
	"testing"

	abci "github.com/tendermint/tendermint/abci/types"
	db "github.com/tendermint/tm-db"

	"github.com/Oneledger/protocol/data/balance"
	"github.com/Oneledger/protocol/data/keys"
	"github.com/Oneledger/protocol/data/transactions"
	"github.com/Oneledger/protocol/storage"
)

const (
	vrScanA = ProposalID("aaaaaaaaaaaaaaaaaaaaaaaaaaaaaaaaaaaaaaaaaaaaaaaaaaaaaaaaaaaaaaaa")
	vrScanB = ProposalID("bbbbbbbbbbbbbbbbbbbbbbbbbbbbbbbbbbbbbbbbbbbbbbbbbbbbbbbbbbbbbbbb")
)

func vrScanState() *storage.State {
	return storage.NewState(storage.NewChainState("c14scan", db.NewDB("c14scan", db.MemDBBackend, "")))
}

func vrScanAddr() keys.Address {
	pub, _, _ := keys.NewKeyPairFromTendermint()
	h, _ := pub.GetHandler()
	return h.Address()
}

// C14.fund-scan iter-stop on (*ProposalFundStore).iterate: two finalisations in one block. Proposal A's funds are deleted
// first (tombstone in the block overlay); the scan for proposal B then stops at A's tombstoned key, so B's funder is not
// found and B's individual records survive DeleteAllFunds (only B's total is zeroed).
func TestVerifReplayC14FundScanStopsAtDeletedRecord(t *testing.T) {
	st := vrScanState()
	pf := NewProposalFundStore("propFunds", st)
	funder := vrScanAddr()
	if err := pf.AddFunds(vrScanA, funder, balance.NewAmount(100)); err != nil {
		t.Fatal(err)
	}
	if err := pf.AddFunds(vrScanB, funder, balance.NewAmount(200)); err != nil {
		t.Fatal(err)
	}
	st.Commit() // both records are in the committed tree
	if !pf.IsFundedByFunder(vrScanB, funder) {
		t.Fatal("setup: B's funder not found before any deletion")
	}
	if err := pf.DeleteAllFunds(vrScanA); err != nil { // same block: A is finalised first
		t.Fatal(err)
	}
	if !pf.IsFundedByFunder(vrScanB, funder) {
		t.Errorf("C14.fund-scan iter-stop violated: after proposal A's funds were deleted in this block, the scan for proposal B stops at A's tombstoned record (decode error => `return true`): IsFundedByFunder(B, funder) = false although the funder's record of 200 exists (a withdrawal from B is refused with 'no such funder')")
	}
	if err := pf.DeleteAllFunds(vrScanB); err != nil {
		t.Fatal(err)
	}
	if left := pf.GetFundsForProposalByFunder(vrScanB, funder); left.BigInt().Sign() != 0 {
		t.Errorf("C14.fund-scan iter-stop violated: DeleteAllFunds(B) returned nil and zeroed B's total (%s) but never visited B's individual record, which still holds %s", pf.GetCurrentFundsForProposal(vrScanB), left)
	}
}

// C14.proposal-scan iter-stop on (*ProposalStore).Iterate: a proposal that left the active store earlier in the block
// (tombstone) ends every later scan of the active store at its key
func TestVerifReplayC14ProposalScanStopsAtDeletedRecord(t *testing.T) {
	st := vrScanState()
	ps := NewProposalStore("propActive", "propPassed", "propFailed", "propFinalized", "propFinalizeFailed", st)
	proposer := vrScanAddr()
	for _, id := range []ProposalID{vrScanA, vrScanB} {
		p := NewProposal(id, ProposalTypeGeneral, "d", "h", proposer, 50, balance.NewAmount(10), 60, 51, "")
		if err := ps.WithPrefixType(ProposalStateActive).Set(p); err != nil {
			t.Fatal(err)
		}
	}
	st.Commit()
	count := func() (n int, sawB bool) {
		ps.WithPrefixType(ProposalStateActive).Iterate(func(id ProposalID, p *Proposal) bool {
			n++
			if p.ProposalID == vrScanB {
				sawB = true
			}
			return false
		})
		return
	}
	if n, sawB := count(); n != 2 || !sawB {
		t.Fatalf("setup: expected to visit 2 active proposals, visited %d (B seen: %v)", n, sawB)
	}
	if ok, err := ps.WithPrefixType(ProposalStateActive).Delete(vrScanA); !ok || err != nil { // A completes in this block
		t.Fatal("setup: delete failed")
	}
	if n, sawB := count(); !sawB {
		t.Errorf("C14.proposal-scan iter-stop violated: after proposal A left the active store in this block, a scan of the active store visits %d records and never reaches active proposal B (the wrapper returns true = stop on A's tombstoned value)", n)
	}
}

// C14.queue-scan iter-stop on (*transactions.TransactionStore).IterateExpired / IterateFinalized (the replay lives here
// because package transactions' own test file imports package app, an import cycle: no in-package test of it builds).
// A queue entry deleted since the last Commit is still visited with the tombstone as value, the wrapper returns true and
// every later entry is cut off. (The block-end runners commit right after they clear the queue, so this is a store-level
// demonstration: the runners themselves do not reach it today.)
func vrQueueScan(t *testing.T, finalized bool) {
	ts := transactions.NewTransactionStore("intx", storage.NewState(storage.NewChainState("c14q", db.NewDB("c14q", db.MemDBBackend, ""))))
	add, del, iter := ts.AddExpired, ts.DeleteExpired, ts.IterateExpired
	if finalized {
		add, del, iter = ts.AddFinalized, ts.DeleteFinalized, ts.IterateFinalized
	}
	for _, id := range []string{"aaaa", "bbbb"} {
		if err := add(id, &abci.RequestDeliverTx{Tx: []byte(id)}); err != nil {
			t.Fatal(err)
		}
	}
	ts.State.Commit()
	visit := func() (seen []string) {
		iter(func(key string, tx *abci.RequestDeliverTx) bool {
			seen = append(seen, key)
			return false
		})
		return
	}
	if got := visit(); len(got) != 2 {
		t.Fatalf("setup: expected 2 queued entries, visited %v", got)
	}
	if ok, err := del("aaaa"); !ok || err != nil {
		t.Fatal("setup: delete failed")
	}
	got := visit()
	sawB := false
	for _, k := range got {
		if k == "bbbb" {
			sawB = true
		}
	}
	if !sawB {
		t.Errorf("C14.queue-scan iter-stop violated: entry aaaa was deleted (tombstone in the overlay), the scan visits %v and never reaches the queued entry bbbb (the wrapper returns true = stop when aaaa's value does not decode)", got)
	}
}

func TestVerifReplayC14ExpiredQueueScanStopsAtDeletedEntry(t *testing.T)   { vrQueueScan(t, false) }
func TestVerifReplayC14FinalizedQueueScanStopsAtDeletedEntry(t *testing.T) { vrQueueScan(t, true) }
