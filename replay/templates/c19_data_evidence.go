package evidence

// Replay for the remaining C19 claim on data/evidence (contracts: /repo/data/evidence/verif_contracts.go).
// Self-contained: builds its own store on a tm-db MemDB.

import (
	"testing"
	"time"

	db "github.com/tendermint/tm-db"

	"github.com/Oneledger/protocol/data/keys"
	"github.com/Oneledger/protocol/storage"
)

// C19.no-downgrade (CreateSuspiciousValidator): writing a MISSED_REQUIRED_VOTES record for an address (what
// identity.CheckMaliciousValidators does for a validator that misses votes) silently replaces a frozen
// BYZANTINE_FAULT record; the guilty validator is then releasable at once instead of after ValidatorReleaseTime days.
func TestVerifReplayNoDowngrade(t *testing.T) {
	cs := storage.NewState(storage.NewChainState("c19", db.NewMemDB()))
	es := NewEvidenceStore("tes", cs)
	a := keys.Address("guilty-validator-20b")
	opt := &Options{ValidatorReleaseTime: 30}
	verdictAt := time.Date(2020, 1, 1, 0, 0, 0, 0, time.UTC)
	if _, err := es.CreateSuspiciousValidator(a, BYZANTINE_FAULT, 100, &verdictAt); err != nil {
		t.Fatal(err)
	}
	soon := verdictAt.Add(10 * time.Second)
	if err := es.HandleRelease(opt, a, 101, soon); err == nil {
		t.Fatalf("setup: a BYZANTINE_FAULT record must not be releasable 10s after the verdict")
	}
	nextBlock := verdictAt.Add(5 * time.Second)
	if _, err := es.CreateSuspiciousValidator(a, MISSED_REQUIRED_VOTES, 101, &nextBlock); err != nil {
		t.Fatal(err)
	}
	lvh, err := es.GetSuspiciousValidator(a, 0, 0)
	if err != nil {
		t.Fatal(err)
	}
	relErr := es.HandleRelease(opt, a, 102, soon)
	if lvh.Status != BYZANTINE_FAULT || relErr == nil {
		t.Errorf("C19.no-downgrade violated: the frozen BYZANTINE_FAULT record was replaced by status %d; release 10s after the verdict (ValidatorReleaseTime 30 days) returned err=%v, frozen=%v",
			lvh.Status, relErr, es.IsFrozenValidator(a))
	}
}
