package governance

// Replay for the candidate defect D-18f: VoteOpinion.Err() can never return an error (String() maps every unknown value to
// the non-empty text "Invalid opinion"), so a signed PROPOSAL_VOTE of a snapshotted validator with an opinion outside
// [0,3] passes Validate, is stored by ProposalVoteStore.Update, and the tally (ResultSoFar, called by runVote in the same
// DeliverTx/CheckTx) indexes a 4-element slice with it: index out of range, the deferred handlePanic closes the application.
// The test FAILS while the out-of-range opinion is accepted / panics and PASSES once it is rejected before it is stored.

import (
	"testing"

	"github.com/Oneledger/protocol/data/keys"
	"github.com/Oneledger/protocol/storage"
	db "github.com/tendermint/tm-db"
)

func TestVerifReplayVoteOpinionOutOfRange(t *testing.T) {
	if err := VoteOpinion(7).Err(); err == nil {
		t.Errorf("C18: VoteOpinion(7).Err() == nil: an opinion outside [UNKNOWN, POSITIVE, NEGATIVE, GIVEUP] passes the handler's validation")
	}
	cs := storage.NewChainState("chainstate", db.NewDB("c18vote", db.MemDBBackend, ""))
	pvs := NewProposalVoteStore("pvs", storage.NewState(cs))
	addr := keys.Address("validator-address-01")
	if err := pvs.Setup("p1", NewProposalVote(addr, OPIN_UNKNOWN, 10)); err != nil {
		t.Fatal(err)
	}
	pvs.store.Commit()
	// what runVote does with the message's opinion (the block commits; the tally of the NEXT vote / finalisation of this
	// proposal reads the stored record through the range scan of the committed tree)
	if err := pvs.Update("p1", NewProposalVote(addr, VoteOpinion(7), 10)); err != nil {
		t.Logf("Update rejected the vote: %v", err)
		return // rejected: fine
	}
	pvs.store.Commit()
	defer func() {
		if r := recover(); r != nil {
			t.Errorf("C18: the tally panics on the stored out-of-range opinion: %v", r)
		}
	}()
	pvs.ResultSoFar("p1", 67)
}
