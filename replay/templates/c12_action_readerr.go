package network_delegation

// Replays for C12.delta-active-read-error-dropped (runNetworkDelegate, runReinvest): both handlers read the
// current active delegation with `currentDelegation, _ := ...Get(addr)` and drop the error.  Fault model of
// the storage Store contract (C09): the read of the active record fails, the following write succeeds.
// The tests FAIL while the error is dropped and would PASS if the handlers returned on a failed read.

import (
	"io/ioutil"
	"testing"

	"github.com/Oneledger/protocol/action"
	"github.com/Oneledger/protocol/data/balance"
	"github.com/Oneledger/protocol/data/chain"
	gov "github.com/Oneledger/protocol/data/governance"
	"github.com/Oneledger/protocol/data/keys"
	netwkDeleg "github.com/Oneledger/protocol/data/network_delegation"
	"github.com/Oneledger/protocol/data/rewards"
	"github.com/Oneledger/protocol/log"
	"github.com/Oneledger/protocol/storage"
	abci "github.com/tendermint/tendermint/abci/types"
	db "github.com/tendermint/tm-db"
)

// refuses exactly the failAt-th metered (non-overflow) operation, accepts all others
type vrFaultGas struct {
	n      int
	failAt int
}

func (g *vrFaultGas) Consume(amount, category storage.Gas, allowOverflow bool) bool {
	if allowOverflow {
		return true
	}
	g.n++
	return g.n != g.failAt
}
func (g *vrFaultGas) GetLimit() storage.Gas    { return 1 << 40 }
func (g *vrFaultGas) GetConsumed() storage.Gas { return 0 }
func (g *vrFaultGas) IsEnough() bool           { return false }
func (g *vrFaultGas) GetLeft() uint64          { return 1 << 40 }

type vrEnv struct {
	ctx   *action.Context
	gas   *vrFaultGas
	deleg *netwkDeleg.Store // un-metered view of the delegation store (same records)
	olt   balance.Currency
	d     keys.Address
}

// Only the delegation store sits behind the fault-injecting meter; balances, rewards and governance use the plain state.
func vrSetup(t *testing.T) *vrEnv {
	plain := storage.NewState(storage.NewChainState("chainstate", db.NewDB("c12", db.MemDBBackend, "")))
	gas := &vrFaultGas{}
	olt := balance.Currency{Id: 0, Name: "OLT", Chain: chain.ONELEDGER, Decimal: 18, Unit: "nue"}
	cs := balance.NewCurrencySet()
	if err := cs.Register(olt); err != nil {
		t.Fatal(err)
	}
	g := gov.NewStore("g", plain)
	if err := g.WithHeight(0).SetProposalOptions(gov.ProposalOptionSet{BountyProgramAddr: "oneledgerBountyProgram"}); err != nil {
		t.Fatal(err)
	}
	if err := g.WithHeight(0).SetRewardOptions(rewards.Options{RewardPoolAddress: "rewardpool", RewardCurrency: "OLT"}); err != nil {
		t.Fatal(err)
	}
	if err := g.WithHeight(0).SetAllLUH(); err != nil {
		t.Fatal(err)
	}
	master := netwkDeleg.NewMasterStore("deleg", "delegRewards", plain)
	master.Deleg.WithState(plain.WithGas(gas))
	pub, _, err := keys.NewKeyPairFromTendermint()
	if err != nil {
		t.Fatal(err)
	}
	h, err := pub.GetHandler()
	if err != nil {
		t.Fatal(err)
	}
	ctx := &action.Context{
		State:           plain,
		Header:          &abci.Header{Height: 10},
		Balances:        balance.NewStore("b", plain),
		Currencies:      cs,
		NetwkDelegators: master,
		GovernanceStore: g,
		Logger:          log.NewLoggerWithPrefix(ioutil.Discard, "replay"),
	}
	return &vrEnv{ctx: ctx, gas: gas, deleg: netwkDeleg.NewStore("deleg", plain), olt: olt, d: h.Address()}
}

func (e *vrEnv) active(t *testing.T) int64 {
	c, err := e.deleg.WithPrefix(netwkDeleg.ActiveType).Get(e.d)
	if err != nil {
		t.Fatal(err)
	}
	return c.Amount.BigInt().Int64()
}

func TestVerifReplayDelegateReadErrorDropped(t *testing.T) {
	e := vrSetup(t)
	// d has 1000 OLT and already 500 OLT of active delegation
	if err := e.ctx.Balances.AddToAddress(e.d, e.olt.NewCoinFromAmount(*balance.NewAmount(1000))); err != nil {
		t.Fatal(err)
	}
	c := e.olt.NewCoinFromAmount(*balance.NewAmount(500))
	if err := e.deleg.WithPrefix(netwkDeleg.ActiveType).Set(e.d, &c); err != nil {
		t.Fatal(err)
	}
	msg := AddNetworkDelegation{DelegationAddress: e.d, Amount: action.Amount{Currency: "OLT", Value: *balance.NewAmount(7)}}
	data, _ := msg.Marshal()
	// metered operations on the delegation store in runNetworkDelegate: Get(active) Set(active) -> fail the 1st
	e.gas.n, e.gas.failAt = 0, 1
	ok, _ := runNetworkDelegate(e.ctx, action.RawTx{Type: msg.Type(), Data: data})
	e.gas.failAt = 0
	if got := e.active(t); ok && got != 507 {
		t.Errorf("C12.delta-active-read-error-dropped violated (runNetworkDelegate): delegation of 7 on top of 500 succeeded with a failed read of the active record; active delegation is now %d, want 507", got)
	}
}

func TestVerifReplayReinvestReadErrorDropped(t *testing.T) {
	e := vrSetup(t)
	// d has 100 of accrued rewards and already 500 OLT of active delegation
	if err := e.ctx.NetwkDelegators.Rewards.AddRewardsBalance(e.d, balance.NewAmount(100)); err != nil {
		t.Fatal(err)
	}
	c := e.olt.NewCoinFromAmount(*balance.NewAmount(500))
	if err := e.deleg.WithPrefix(netwkDeleg.ActiveType).Set(e.d, &c); err != nil {
		t.Fatal(err)
	}
	msg := Reinvest{Delegator: e.d, Amount: action.Amount{Currency: "OLT", Value: *balance.NewAmount(7)}}
	data, _ := msg.Marshal()
	// metered operations on the delegation store in runReinvest: Get(active) Set(active) -> fail the 1st
	e.gas.n, e.gas.failAt = 0, 1
	ok, _ := runReinvest(e.ctx, action.RawTx{Type: msg.Type(), Data: data})
	e.gas.failAt = 0
	if got := e.active(t); ok && got != 507 {
		t.Errorf("C12.delta-active-read-error-dropped violated (runReinvest): reinvestment of 7 on top of 500 succeeded with a failed read of the active record; active delegation is now %d, want 507", got)
	}
}
