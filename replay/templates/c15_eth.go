package eth

// Replays for the remaining C15 / C18 obligations of action/eth (cross-chain lock / redeem handlers).
// Every test drives the REAL handler bodies over in-memory stores (tm-db MemDB) and fails, naming the violated
// clause, while the defect is present; it passes once the code is repaired.

import (
	"bytes"
	"fmt"
	"io/ioutil"
	"math/big"
	"runtime/debug"
	"strings"
	"testing"

	ethcommon "github.com/ethereum/go-ethereum/common"
	ethtypes "github.com/ethereum/go-ethereum/core/types"
	"github.com/ethereum/go-ethereum/rlp"
	db "github.com/tendermint/tm-db"

	"github.com/Oneledger/protocol/action"
	ethchain "github.com/Oneledger/protocol/chains/ethereum"
	"github.com/Oneledger/protocol/chains/ethereum/contract"
	"github.com/Oneledger/protocol/data/balance"
	"github.com/Oneledger/protocol/data/chain"
	trackerlib "github.com/Oneledger/protocol/data/ethereum"
	"github.com/Oneledger/protocol/data/governance"
	"github.com/Oneledger/protocol/data/keys"
	"github.com/Oneledger/protocol/identity"
	"github.com/Oneledger/protocol/log"
	"github.com/Oneledger/protocol/storage"
)

var (
	vrTokenAddr    = ethcommon.HexToAddress("0x1111111111111111111111111111111111111111")
	vrERCContract  = ethcommon.HexToAddress("0x2222222222222222222222222222222222222222")
	vrETHContract  = ethcommon.HexToAddress("0x3333333333333333333333333333333333333333")
	vrOtherAddr    = ethcommon.HexToAddress("0x4444444444444444444444444444444444444444")
	vrSupplyAddr   = "oneledgerSupplyAddress"
	vrOwner        = keys.Address(bytes.Repeat([]byte{0xAA}, 20))
	vrTokenName    = "TTC"
	vrWitnessAddrs = []keys.Address{
		keys.Address(bytes.Repeat([]byte{0x01}, 20)),
		keys.Address(bytes.Repeat([]byte{0x02}, 20)),
		keys.Address(bytes.Repeat([]byte{0x03}, 20)),
		keys.Address(bytes.Repeat([]byte{0x04}, 20)),
	}
)

// vrNewCtx builds a context over fresh in-memory stores: currencies ETH and TTC, the ETH chain-driver option
// (lock/redeem contract ABIs, one ERC20 token), empty tracker stores. gasLimit > 0 puts a gas-metered store under the State.
func vrNewCtx(t *testing.T, gasLimit int64) *action.Context {
	cs := storage.NewChainState("verifreplay", db.NewMemDB())
	state := storage.NewState(cs)
	if gasLimit > 0 {
		state = state.WithGas(storage.NewGasCalculator(storage.Gas(gasLimit)))
	}
	currencies := balance.NewCurrencySet()
	if err := currencies.Register(balance.Currency{Id: 0, Name: "ETH", Chain: chain.ETHEREUM, Decimal: 18, Unit: "wei"}); err != nil {
		t.Fatal(err)
	}
	if err := currencies.Register(balance.Currency{Id: 1, Name: vrTokenName, Chain: chain.ETHEREUM, Decimal: 18, Unit: "ttc"}); err != nil {
		t.Fatal(err)
	}
	gov := governance.NewStore("g", state).WithHeight(0)
	opt := ethchain.ChainDriverOption{
		ContractABI:        contract.LockRedeemABI,
		ContractAddress:    vrETHContract,
		TokenList:          []ethchain.ERC20Token{{TokName: vrTokenName, TokAddr: vrTokenAddr, TokAbi: contract.ERC20BasicABI, TokTotalSupply: "1000000000000"}},
		ERCContractABI:     contract.LockRedeemERCABI,
		ERCContractAddress: vrERCContract,
		TotalSupply:        "1000000000000",
		TotalSupplyAddr:    vrSupplyAddr,
		BlockConfirmation:  1,
	}
	if err := gov.SetETHChainDriverOption(opt); err != nil {
		t.Fatal(err)
	}
	if err := gov.SetLUH(governance.LAST_UPDATE_HEIGHT_ETH); err != nil {
		t.Fatal(err)
	}
	return &action.Context{
		State:           state,
		Balances:        balance.NewStore("b", state),
		Currencies:      currencies,
		Witnesses:       identity.NewWitnessStore("w", state),
		ETHTrackers:     trackerlib.NewTrackerStore("etht", "ethfailed", "ethsuccess", state),
		GovernanceStore: gov,
		Logger:          log.NewLoggerWithPrefix(ioutil.Discard, "verifreplay"),
	}
}

func vrPad32(b []byte) []byte { return ethcommon.LeftPadBytes(b, 32) }

func vrRaw(t *testing.T, tx *ethtypes.Transaction) []byte {
	raw, err := rlp.EncodeToBytes(tx)
	if err != nil {
		t.Fatal(err)
	}
	return raw
}

// ERC20 transfer(receiver, amount) sent to the token contract
func vrERC20TransferTx(t *testing.T, receiver ethcommon.Address, amount int64) []byte {
	data := append(ethcommon.FromHex("a9059cbb"), append(vrPad32(receiver.Bytes()), vrPad32(big.NewInt(amount).Bytes())...)...)
	return vrRaw(t, ethtypes.NewTransaction(7, vrTokenAddr, big.NewInt(0), 100000, big.NewInt(1), data))
}

// LockRedeemERC.redeem(amount, token); creation == true makes it a contract-creation transaction (To() == nil)
func vrERC20RedeemTx(t *testing.T, amount int64, creation bool) []byte {
	data := append(ethcommon.FromHex("7bde82f2"), append(vrPad32(big.NewInt(amount).Bytes()), vrPad32(vrTokenAddr.Bytes())...)...)
	if creation {
		return vrRaw(t, ethtypes.NewContractCreation(9, big.NewInt(0), 100000, big.NewInt(1), data))
	}
	return vrRaw(t, ethtypes.NewTransaction(9, vrERCContract, big.NewInt(0), 100000, big.NewInt(1), data))
}

func vrRawTx(t *testing.T, msg action.Msg) action.RawTx {
	data, err := msg.Marshal()
	if err != nil {
		t.Fatal(err)
	}
	return action.RawTx{Type: msg.Type(), Data: data}
}

func vrFund(t *testing.T, ctx *action.Context, addr keys.Address, cur string, amt int64) {
	c, ok := ctx.Currencies.GetCurrencyByName(cur)
	if !ok {
		t.Fatal("currency " + cur)
	}
	if err := ctx.Balances.AddToAddress(addr, c.NewCoinFromInt(amt)); err != nil {
		t.Fatal(err)
	}
}

func vrBal(t *testing.T, ctx *action.Context, addr keys.Address, cur string) string {
	c, _ := ctx.Currencies.GetCurrencyByName(cur)
	coin, err := ctx.Balances.GetBalanceForCurr(addr, &c)
	if err != nil {
		t.Fatal(err)
	}
	return coin.Amount.BigInt().String()
}

// vrGuard runs f and reports a panic as a violation of C18 for the named obligation
func vrGuard(t *testing.T, what string, f func()) {
	defer func() {
		if r := recover(); r != nil {
			where := ""
			for _, ln := range strings.Split(string(debug.Stack()), "\n") {
				if strings.Contains(ln, "/action/eth/") && !strings.Contains(ln, "zz_verif_replay_test.go") {
					where = strings.TrimSpace(ln)
					break
				}
			}
			t.Errorf("C18 violated (%s): handler body panicked at %s: %v", what, where, r)
		}
	}()
	f()
}

// ---------------------------------------------------------------- C15.one-tracker-per-tx, runERC20Lock

// The same external ERC20 lock transaction is accepted again (a) while its tracker is ongoing, wiping the recorded
// votes, and (b) after the tracker was released and moved to the passed store, so it can be minted a second time.
func TestVerifReplayERC20LockTwice(t *testing.T) {
	ctx := vrNewCtx(t, 0)
	raw := vrERC20TransferTx(t, vrERCContract, 500)
	tx := vrRawTx(t, &ERC20Lock{Locker: vrOwner, ETHTxn: raw})
	name := ethcommon.BytesToHash(raw)

	ok, resp := runERC20Lock(ctx, tx)
	if !ok {
		t.Fatalf("setup: first ERC20 lock refused: %s", resp.Log)
	}
	// two witnesses out of four have already reported success on the ongoing tracker
	tr, err := ctx.ETHTrackers.WithPrefixType(trackerlib.PrefixOngoing).Get(name)
	if err != nil {
		t.Fatal(err)
	}
	tr.Witnesses = vrWitnessAddrs
	tr.FinalityVotes = make([]trackerlib.Vote, len(vrWitnessAddrs))
	_ = tr.AddVote(vrWitnessAddrs[0], 0, true)
	_ = tr.AddVote(vrWitnessAddrs[1], 1, true)
	if err := ctx.ETHTrackers.WithPrefixType(trackerlib.PrefixOngoing).Set(tr); err != nil {
		t.Fatal(err)
	}
	ok, _ = runERC20Lock(ctx, tx)
	if ok {
		after, _ := ctx.ETHTrackers.WithPrefixType(trackerlib.PrefixOngoing).Get(name)
		y, _ := after.GetVotes()
		t.Errorf("C15.one-tracker-per-tx violated (runERC20Lock): the same ETHTxn was accepted while its tracker is ongoing; recorded yes votes went from 2 to %d", y)
	}
	// block-end cleanup of a released tracker: ongoing -> passed
	tr.State = trackerlib.Released
	if err := ctx.ETHTrackers.WithPrefixType(trackerlib.PrefixPassed).Set(tr); err != nil {
		t.Fatal(err)
	}
	if _, err := ctx.ETHTrackers.WithPrefixType(trackerlib.PrefixOngoing).Delete(name); err != nil {
		t.Fatal(err)
	}
	ok, _ = runERC20Lock(ctx, tx)
	if ok && ctx.ETHTrackers.WithPrefixType(trackerlib.PrefixOngoing).Exists(name) {
		t.Errorf("C15.one-tracker-per-tx violated (runERC20Lock): the ETHTxn of an already released (passed store) tracker backs a second, fresh ongoing tracker: it can be minted twice")
	}
}

// ---------------------------------------------------------------- C18 ext_ERC20Lock.go:160

// An ERC20 transfer whose receiver is not the OneLedger contract makes VerfiyERC20Lock return (false, nil);
// the handler then calls err.Error() on the nil error.
func TestVerifReplayERC20LockNilErr(t *testing.T) {
	ctx := vrNewCtx(t, 0)
	tx := vrRawTx(t, &ERC20Lock{Locker: vrOwner, ETHTxn: vrERC20TransferTx(t, vrOtherAddr, 500)})
	vrGuard(t, "runERC20Lock nil-deref ext_ERC20Lock.go:160 err.Error() with err == nil", func() {
		ok, _ := runERC20Lock(ctx, tx)
		if ok {
			t.Errorf("transfer to a foreign receiver accepted as a lock")
		}
	})
}

// ---------------------------------------------------------------- C18 nil To()

// A contract-creation transaction (To() == nil) whose input is the lock() selector passes VerifyLock and is then
// dereferenced by ethTx.To().Bytes().
func TestVerifReplayNilToLock(t *testing.T) {
	ctx := vrNewCtx(t, 0)
	raw := vrRaw(t, ethtypes.NewContractCreation(1, big.NewInt(1000), 100000, big.NewInt(1), ethcommon.FromHex("f83d08ba")))
	vrGuard(t, "runLock nil-deref ext_lock.go:175 ethTx.To().Bytes() with To() == nil", func() {
		ok, _ := runLock(ctx, &Lock{Locker: vrOwner, ETHTxn: raw})
		if ok {
			t.Errorf("contract creation accepted as a lock")
		}
	})
}

func TestVerifReplayNilToERC20Lock(t *testing.T) {
	ctx := vrNewCtx(t, 0)
	data := append(ethcommon.FromHex("a9059cbb"), append(vrPad32(vrERCContract.Bytes()), vrPad32(big.NewInt(5).Bytes())...)...)
	raw := vrRaw(t, ethtypes.NewContractCreation(1, big.NewInt(0), 100000, big.NewInt(1), data))
	tx := vrRawTx(t, &ERC20Lock{Locker: vrOwner, ETHTxn: raw})
	vrGuard(t, "runERC20Lock nil-deref ext_ERC20Lock.go:142 *ethTx.To() with To() == nil", func() {
		ok, _ := runERC20Lock(ctx, tx)
		if ok {
			t.Errorf("contract creation accepted as an ERC20 lock")
		}
	})
}

// runERC20Reddem never looks at To(): it records a tracker for a contract-creation transaction that carries the
// redeem(amount, token) input; when the yes votes cross the threshold burnERC20Tokens dereferences To().
func TestVerifReplayNilToBurnERC20(t *testing.T) {
	ctx := vrNewCtx(t, 0)
	vrFund(t, ctx, vrOwner, vrTokenName, 1000)
	vrFund(t, ctx, keys.Address(vrSupplyAddr), vrTokenName, 1000)
	raw := vrERC20RedeemTx(t, 100, true)
	ok, resp := runERC20Reddem(ctx, vrRawTx(t, &ERC20Redeem{Owner: vrOwner, To: vrOtherAddr, ETHTxn: raw}))
	if !ok {
		// a repaired handler may refuse the transaction: then there is nothing to burn
		t.Logf("redeem with a contract-creation transaction refused: %s", resp.Log)
		return
	}
	tr, err := ctx.ETHTrackers.WithPrefixType(trackerlib.PrefixOngoing).Get(ethcommon.BytesToHash(raw))
	if err != nil {
		t.Fatal(err)
	}
	vrGuard(t, "burnERC20Tokens nil-deref check_finalty.go:323 *ethTx.To() with To() == nil", func() {
		_ = burnERC20Tokens(ctx, tr, ReportFinality{TrackerName: tr.TrackerName})
	})
}

// ---------------------------------------------------------------- C15.one-tracker-per-tx, runERC20Reddem

// runERC20Reddem does not look at the failed store: an external transaction that already backs a failed tracker
// (the store runRedeem does check) is debited again and backs a second tracker.
func TestVerifReplayERC20RedeemFailedStore(t *testing.T) {
	ctx := vrNewCtx(t, 0)
	vrFund(t, ctx, vrOwner, vrTokenName, 1000)
	vrFund(t, ctx, keys.Address(vrSupplyAddr), vrTokenName, 1000)
	raw := vrERC20RedeemTx(t, 100, false)
	name := ethcommon.BytesToHash(raw)
	old := trackerlib.NewTracker(trackerlib.ProcessTypeRedeemERC, vrOwner, raw, name, vrWitnessAddrs)
	old.State = trackerlib.Failed
	if err := ctx.ETHTrackers.WithPrefixType(trackerlib.PrefixFailed).Set(old); err != nil {
		t.Fatal(err)
	}
	ok, _ := runERC20Reddem(ctx, vrRawTx(t, &ERC20Redeem{Owner: vrOwner, To: vrOtherAddr, ETHTxn: raw}))
	if ok && ctx.ETHTrackers.WithPrefixType(trackerlib.PrefixFailed).Exists(name) && ctx.ETHTrackers.WithPrefixType(trackerlib.PrefixOngoing).Exists(name) {
		t.Errorf("C15.one-tracker-per-tx violated (runERC20Reddem): the ETHTxn of a tracker in the failed store was accepted again; it now backs a tracker in the failed AND in the ongoing store (owner balance %s)", vrBal(t, ctx, vrOwner, vrTokenName))
	}
}

// ---------------------------------------------------------------- C15.redeem-debited-with-tracker, runERC20Reddem

// The error of the final ETHTrackers.Set is ignored. With a gas-metered store (no tx session) whose limit is reached
// exactly at that Set, the handler reports success, keeps both debits and records no tracker.
func TestVerifReplayERC20RedeemSetIgnored(t *testing.T) {
	run := func(limit int64) (ok bool, has bool, owner string, used int64) {
		ctx := vrNewCtx(t, 1<<40)
		vrFund(t, ctx, vrOwner, vrTokenName, 1000)
		vrFund(t, ctx, keys.Address(vrSupplyAddr), vrTokenName, 1000)
		raw := vrERC20RedeemTx(t, 100, false)
		// meter only the handler: re-aim every store at a State with the wanted limit
		base := ctx.State
		st := base.WithGas(storage.NewGasCalculator(storage.Gas(limit)))
		ctx.State = st
		ctx.Balances = balance.NewStore("b", st)
		ctx.ETHTrackers.WithState(st)
		ctx.GovernanceStore.WithState(st)
		ctx.Witnesses.WithState(st)
		ok, _ = runERC20Reddem(ctx, vrRawTx(t, &ERC20Redeem{Owner: vrOwner, To: vrOtherAddr, ETHTxn: raw}))
		used = int64(st.ConsumedGas())
		// read back through the unmetered State underneath (same block cache)
		ctx.Balances = balance.NewStore("b", base)
		has = ctx.ETHTrackers.WithState(base).WithPrefixType(trackerlib.PrefixOngoing).Exists(ethcommon.BytesToHash(raw))
		owner = vrBal(t, ctx, vrOwner, vrTokenName)
		return
	}
	ok, has, debited, total := run(1 << 40)
	if !ok || !has {
		t.Fatalf("setup: unmetered redeem failed (ok=%v tracker=%v)", ok, has)
	}
	for limit := total; limit > 0; limit -= 10 {
		ok, has, owner, _ := run(limit)
		if ok && !has && owner == debited {
			t.Errorf("C15.redeem-debited-with-tracker violated (runERC20Reddem): with gas limit %d the final ETHTrackers.Set failed and its error was ignored: the handler returned true, the owner stays debited by 100 (balance %s) and NO tracker exists", limit, owner)
			return
		}
	}
}

// ---------------------------------------------------------------- C15.erc20-failure-vote-recorded, runCheckFinality

// For an ERC20 redeem tracker the "no" report that crosses the failure threshold is dropped: the Failed branch of
// runCheckFinality only handles ETH lock / ETH redeem and otherwise returns true WITHOUT saving the tracker, so the
// tracker never becomes Failed and the tokens debited by runERC20Reddem are never refunded.
func TestVerifReplayERC20FailureVote(t *testing.T) {
	ctx := vrNewCtx(t, 0)
	raw := vrERC20RedeemTx(t, 100, false)
	name := ethcommon.BytesToHash(raw)
	tr := trackerlib.NewTracker(trackerlib.ProcessTypeRedeemERC, vrOwner, raw, name, vrWitnessAddrs)
	tr.State = trackerlib.BusyFinalizing
	if err := ctx.ETHTrackers.WithPrefixType(trackerlib.PrefixOngoing).Set(tr); err != nil {
		t.Fatal(err)
	}
	for i := 0; i < 3; i++ { // threshold for 4 witnesses: floor(8/3)+1 = 3
		msg := &ReportFinality{TrackerName: name, Locker: vrOwner, ValidatorAddress: vrWitnessAddrs[i], VoteIndex: int64(i), Success: false}
		ok, resp := runCheckFinality(ctx, vrRawTx(t, msg))
		if !ok {
			t.Fatalf("setup: no-report %d refused: %s", i, resp.Log)
		}
	}
	got, err := ctx.ETHTrackers.WithPrefixType(trackerlib.PrefixOngoing).Get(name)
	if err != nil {
		t.Fatal(err)
	}
	_, no := got.GetVotes()
	if got.FinalityVotes[2] != 2 {
		t.Errorf("C15.erc20-failure-vote-recorded violated (runCheckFinality): the accepted third \"no\" report of witness 2 on an ERC20 redeem tracker was not recorded (slot = %d, recorded no votes = %d of 4, tracker state %s, Failed() = %v): the tracker can never fail and the redeem is never refunded", got.FinalityVotes[2], no, got.State.String(), got.Failed())
	}
	_ = fmt.Sprint()
}
