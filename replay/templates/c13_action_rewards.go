package rewards

// Replay for the remaining C03 claim on the validator reward withdrawal handler
// (action/rewards/verif_contracts.go, runWithdraw: C03.only-owner-debits-matured):
// the stake-address check runs only while the named validator is still in the validator store; for a validator that
// has been removed (power 0 => deleted at EndBlock) ANY signer withdraws its matured rewards to itself.
// Self-contained: builds its own context on a tm-db MemDB.

import (
	"testing"

	abci "github.com/tendermint/tendermint/abci/types"
	"github.com/tendermint/tendermint/crypto/ed25519"
	db "github.com/tendermint/tm-db"

	"github.com/Oneledger/protocol/action"
	"github.com/Oneledger/protocol/data/balance"
	"github.com/Oneledger/protocol/data/chain"
	"github.com/Oneledger/protocol/data/fees"
	"github.com/Oneledger/protocol/data/keys"
	drewards "github.com/Oneledger/protocol/data/rewards"
	"github.com/Oneledger/protocol/identity"
	"github.com/Oneledger/protocol/log"
	"github.com/Oneledger/protocol/storage"
)

type vr13Key struct {
	priv ed25519.PrivKeyEd25519
	addr keys.Address
	pub  keys.PublicKey
}

func vr13NewKey() vr13Key {
	p := ed25519.GenPrivKey()
	return vr13Key{priv: p, addr: keys.Address(p.PubKey().Address().Bytes()), pub: keys.PublicKey{KeyType: keys.ED25519, Data: p.PubKey().Bytes()[5:]}}
}

const vr13Pool = "rewardpool"

// context with a funded rewards pool; no validator is registered
func vr13Ctx(t *testing.T) (*action.Context, balance.Currency) {
	ctx := &action.Context{}
	ctx.Header = &abci.Header{Height: 10}
	cs := storage.NewState(storage.NewChainState("c13", db.NewMemDB()))
	ctx.State = cs
	ctx.Logger = new(log.Logger)
	currency := balance.Currency{Id: 0, Name: "OLT", Chain: chain.ONELEDGER, Decimal: 18, Unit: "nue"}
	ctx.Currencies = balance.NewCurrencySet()
	if err := ctx.Currencies.Register(currency); err != nil {
		t.Fatal(err)
	}
	ctx.Balances = balance.NewStore("tb", cs)
	ctx.FeeOpt = &fees.FeeOption{FeeCurrency: currency, MinFeeDecimal: 9}
	ctx.FeePool = fees.NewStore("tf", cs)
	ctx.FeePool.SetupOpt(ctx.FeeOpt)
	ctx.Validators = identity.NewValidatorStore("tv", "purged", cs)
	rwz := drewards.NewRewardStore("rwz", "rwzi", "rwza", cs)
	rwzc := drewards.NewRewardCumulativeStore("rwzc", cs)
	ctx.RewardMasterStore = drewards.NewRewardMasterStore(rwz, rwzc)
	ctx.RewardMasterStore.SetOptions(&drewards.Options{RewardInterval: 1, RewardPoolAddress: vr13Pool, RewardCurrency: "OLT", BlockSpeedCalculateCycle: 100})
	if err := ctx.Balances.AddToAddress(keys.Address(vr13Pool), currency.NewCoinFromInt(1000)); err != nil {
		t.Fatal(err)
	}
	return ctx, currency
}

func vr13Raw(msg action.Msg) action.RawTx {
	data, _ := msg.Marshal()
	fee := action.Fee{Price: action.Amount{Currency: "OLT", Value: *balance.NewAmount(10000000000)}, Gas: 10}
	return action.RawTx{Type: msg.Type(), Data: data, Fee: fee, Memo: "c13"}
}

func vr13Sign(raw action.RawTx, k vr13Key) action.SignedTx {
	sig, _ := k.priv.Sign(raw.RawBytes())
	return action.SignedTx{RawTx: raw, Signatures: []action.Signature{{Signer: k.pub, Signed: sig}}}
}

// C03.only-owner-debits-matured / runWithdraw: validator V earned 7 OLT of matured rewards and then left the
// validator store (its record is absent). A stranger signs a Withdraw naming V and receives V's 7 OLT.
func TestVerifReplayStrangerWithdrawsRemovedValidatorRewards(t *testing.T) {
	ctx, currency := vr13Ctx(t)
	validator, stranger := vr13NewKey(), vr13NewKey()

	matured := currency.NewCoinFromInt(7)
	if err := ctx.RewardMasterStore.RewardCm.AddMaturedBalance(validator.addr, matured.Amount); err != nil {
		t.Fatal(err)
	}
	if ctx.Validators.Exists(validator.addr) {
		t.Fatal("setup: the validator must not be in the validator store")
	}

	msg := &Withdraw{ValidatorAddress: validator.addr, SignerAddress: stranger.addr, WithdrawAmount: action.Amount{Currency: "OLT", Value: *balance.NewAmountFromInt(7)}}
	tx := vr13Sign(vr13Raw(msg), stranger)
	okV, errV := withdrawTx{}.Validate(ctx, tx)
	okD, resp := withdrawTx{}.ProcessDeliver(ctx, tx.RawTx)

	left, _ := ctx.RewardMasterStore.RewardCm.GetMaturedBalance(validator.addr)
	got, _ := ctx.Balances.GetBalanceForCurr(stranger.addr, &currency)
	if okV && okD && left.BigInt().Sign() == 0 && got.Amount.BigInt().Cmp(matured.Amount.BigInt()) == 0 {
		t.Errorf("C03.only-owner-debits-matured violated: %s (not the stake account of validator %s, which is no longer in the validator store) withdrew the validator's whole matured reward: Validate=%v (%v) ProcessDeliver=%v %s; matured balance left %s, stranger's balance %s",
			stranger.addr, validator.addr, okV, errV, okD, resp.Log, left, got.Amount)
	}
}
