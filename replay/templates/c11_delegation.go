package delegation

// Replays for the remaining C11 claims on DelegationStore (data/delegation/verif_contracts.go).
// Every test builds its own in-memory State (tm-db MemDB), drives the real store and FAILS while the
// defect is present.

import (
	"testing"

	db "github.com/tendermint/tm-db"

	"github.com/Oneledger/protocol/data/balance"
	"github.com/Oneledger/protocol/data/keys"
	"github.com/Oneledger/protocol/storage"
)

var (
	vr11Val  = keys.Address("validator-0000000001")
	vr11Del  = keys.Address("delegator-0000000001")
	vr11Del2 = keys.Address("delegator-0000000002")
)

func vr11Amt(x int64) balance.Amount { return *balance.NewAmountFromInt(x) }

type vr11Snap struct{ v, vd, de, db int64 }

func vr11Read(st *DelegationStore, v, d keys.Address) vr11Snap {
	a, _ := st.GetValidatorAmount(v)
	b, _ := st.GetValidatorDelegationAmount(v, d)
	c, _ := st.GetDelegatorEffectiveAmount(d)
	e, _ := st.GetDelegatorBoundedAmount(d)
	return vr11Snap{a.BigInt().Int64(), b.BigInt().Int64(), c.BigInt().Int64(), e.BigInt().Int64()}
}

func vr11Pending(st *DelegationStore, h int64, d keys.Address) int64 {
	m, err := st.GetMatureAmounts(h)
	if err != nil {
		return -1
	}
	sum := int64(0)
	for _, e := range m.Data {
		if e.Address.Equal(d) {
			sum += e.Amount.BigInt().Int64()
		}
	}
	return sum
}

// C11.stake-sum-on-error / MinusFromAddress: the validator total is written before the (validator, delegator)
// record is checked. V[v] = 10 held by another delegator, MinusFromAddress(v, d2, 5) with VD[v][d2] = 0.
func TestVerifReplayMinusFromAddressPartial(t *testing.T) {
	st := NewDelegationStore("dlg", storage.NewState(storage.NewChainState("c11", db.NewMemDB())))
	if err := st.AddToAddress(vr11Val, vr11Del, vr11Amt(10)); err != nil {
		t.Skip("setup failed: ", err)
	}
	before, _ := st.GetValidatorAmount(vr11Val)
	err := st.MinusFromAddress(vr11Val, vr11Del2, vr11Amt(5))
	after, _ := st.GetValidatorAmount(vr11Val)
	own, _ := st.GetValidatorDelegationAmount(vr11Val, vr11Del)
	if err != nil && !after.Equals(*before) {
		t.Errorf("C11.stake-sum-on-error violated: MinusFromAddress returned %q but the validator total went %s -> %s while the only delegator still holds %s", err, before, after, own)
	}
}

// C11.stake-sum-on-error + C11.error-unchanged / Unstake: same input through Unstake.
func TestVerifReplayUnstakePartial(t *testing.T) {
	st := NewDelegationStore("dlg", storage.NewState(storage.NewChainState("c11", db.NewMemDB())))
	if err := st.Stake(vr11Val, vr11Del, vr11Amt(10)); err != nil {
		t.Skip("setup failed: ", err)
	}
	before, _ := st.GetValidatorAmount(vr11Val)
	err := st.Unstake(vr11Val, vr11Del2, vr11Amt(5), 20)
	after, _ := st.GetValidatorAmount(vr11Val)
	if err != nil && !after.Equals(*before) {
		t.Errorf("C11.error-unchanged / C11.stake-sum-on-error violated: Unstake returned %q but the validator total went %s -> %s (sum of delegator records still %s, nothing queued for maturity: pending=%d)",
			err, before, after, before, vr11Pending(st, 20, vr11Del2))
	}
}

// C11.stake-sum-on-error / AddToAddress: the three records are written one after the other through a gas-metered
// State; when the block gas runs out between two writes the call fails with the validator total already increased.
// The gas limit at which that happens is searched (real storage.NewGasCalculator).
func TestVerifReplayAddToAddressPartial(t *testing.T) {
	for limit := int64(1); limit < 4000; limit += 7 {
		cs := storage.NewChainState("c11", db.NewMemDB())
		gs := storage.NewState(cs).WithGas(storage.NewGasCalculator(storage.Gas(limit)))
		st := NewDelegationStore("dlg", gs)
		err := st.AddToAddress(vr11Val, vr11Del, vr11Amt(7))
		if err == nil {
			continue
		}
		gs.Commit()
		rd := NewDelegationStore("dlg", storage.NewState(cs))
		s := vr11Read(rd, vr11Val, vr11Del)
		if s.v != s.vd {
			t.Errorf("C11.stake-sum-on-error violated: with block gas limit %d AddToAddress returned %q and left validator total %d but delegator record %d (effective %d)", limit, err, s.v, s.vd, s.de)
			return
		}
	}
}

// vr11Matured prepares: delegator staked 10, unstaked 4 maturing at height h (committed), and returns a store aimed
// at a State with the given block gas limit, as the end-block code sees it after the block's transactions used gas.
func vr11Matured(limit int64, h int64) (*storage.ChainState, *storage.State, *DelegationStore, bool) {
	cs := storage.NewChainState("c11", db.NewMemDB())
	s0 := storage.NewState(cs)
	st := NewDelegationStore("dlg", s0)
	if st.Stake(vr11Val, vr11Del, vr11Amt(10)) != nil || st.Unstake(vr11Val, vr11Del, vr11Amt(4), h) != nil {
		return nil, nil, nil, false
	}
	s0.Commit()
	gs := storage.NewState(cs).WithGas(storage.NewGasCalculator(storage.Gas(limit)))
	return cs, gs, NewDelegationStore("dlg", gs), true
}

// C11.mature-exact / C11.mature-once: UpdateWithdrawReward(h) swallows every error. In a block whose gas is used up
// (limit reached by the transactions) the reads come back empty and the writes are refused: the 4 units maturing at
// h are never credited and stay queued although h is never processed again.
func TestVerifReplayMatureLost(t *testing.T) {
	const h = 20
	cs, gs, st, ok := vr11Matured(1, h) // gas limit 1: the first metered access exhausts the block gas
	if !ok {
		t.Skip("setup failed")
	}
	st.GetDelegatorBoundedAmount(vr11Del) // a transaction of the block uses the gas
	st.UpdateWithdrawReward(h)
	gs.Commit()
	rd := NewDelegationStore("dlg", storage.NewState(cs))
	s := vr11Read(rd, vr11Val, vr11Del)
	pend := vr11Pending(rd, h, vr11Del)
	if s.db != 4 {
		t.Errorf("C11.mature-exact violated: 4 units matured at height %d but the bounded amount is %d after UpdateWithdrawReward (errors swallowed)", h, s.db)
	}
	if pend != 0 {
		t.Errorf("C11.mature-once violated: the maturing list of height %d still holds %d after UpdateWithdrawReward(%d)", h, pend, h)
	}
}

// C11.mature-conserve: crediting and clearing are not atomic and the error of the clearing write is ignored: with
// the gas running out after the credit, bounded + pending grows (the same amount would be credited again).
func TestVerifReplayMatureNotCleared(t *testing.T) {
	const h = 20
	for limit := int64(1); limit < 4000; limit += 3 {
		cs, gs, st, ok := vr11Matured(limit, h)
		if !ok {
			t.Skip("setup failed")
		}
		st.UpdateWithdrawReward(h)
		gs.Commit()
		rd := NewDelegationStore("dlg", storage.NewState(cs))
		s := vr11Read(rd, vr11Val, vr11Del)
		pend := vr11Pending(rd, h, vr11Del)
		if s.db+pend > 4 {
			rd.UpdateWithdrawReward(h)
			s2 := vr11Read(rd, vr11Val, vr11Del)
			t.Errorf("C11.mature-conserve violated: with block gas limit %d UpdateWithdrawReward(%d) credited %d and left %d queued (was 0 + 4); a second call credits again: bounded = %d for 4 unstaked", limit, h, s.db, pend, s2.db)
			return
		}
	}
}
