package balance

// Replays for the remaining C17 claims clauses of the account keeper (data/balance/verif_contracts_keeper.go):
//   C17.one-ledger-remove      (*NesterAccountKeeper).RemoveAccount
//   C17.one-ledger-read-error  getOrCreateCurrencyBalance / GetBalance / NewAccountWithAddress
// Self-contained: in-memory stores (tm-db MemDB).

import (
	"math/big"
	"testing"

	"github.com/Oneledger/protocol/data/chain"
	"github.com/Oneledger/protocol/data/keys"
	"github.com/Oneledger/protocol/storage"
	db "github.com/tendermint/tm-db"
)

func vrC17Keeper(t *testing.T) (*Store, AccountKeeper, Currency) {
	mem := db.NewMemDB()
	store := NewStore("tb", storage.NewState(storage.NewChainState("balance", mem)))
	currencies := NewCurrencySet()
	cur := Currency{Name: "OLT", Chain: chain.Type(1), Decimal: 18}
	if err := currencies.Register(cur); err != nil {
		t.Fatal(err)
	}
	keeper := NewNesterAccountKeeper(storage.NewState(storage.NewChainState("keeper", mem)), store, currencies)
	return store, keeper, cur
}

func vrC17KAddr(b byte) keys.Address {
	a := make([]byte, 20)
	for i := range a {
		a[i] = b
	}
	return a
}

// C17.one-ledger-remove: RemoveAccount is what the EVM calls for a self-destructed account (its in-memory balance has
// been moved to the beneficiary and set to 0). It deletes only the keeper record; the balance-store record keeps the
// old amount, so the native view still shows X for an account the EVM has emptied and deleted (and X now exists twice).
func TestVerifReplayC17RemoveAccount(t *testing.T) {
	store, keeper, cur := vrC17Keeper(t)
	addr := vrC17KAddr(0x66)
	x := new(big.Int).Mul(big.NewInt(500), big.NewInt(1e18))
	acc := NewEthAccount(addr, Coin{Currency: cur, Amount: NewAmountFromBigInt(new(big.Int).Set(x))})
	acc.CodeHash = []byte{1, 2, 3} // a contract account
	acc.Sequence = 1
	if err := keeper.SetAccount(*acc); err != nil {
		t.Fatal(err)
	}
	// what CommitStateDB.Suicide + Finalise do: balance of the object set to 0, then deleteStateObject -> RemoveAccount
	acc.SetBalance(new(big.Int))
	keeper.RemoveAccount(*acc)
	c, err := store.GetBalanceForCurr(addr, &cur)
	if err != nil {
		t.Fatal(err)
	}
	if c.Amount.BigInt().Sign() != 0 {
		t.Errorf("C17.one-ledger-remove violated: after RemoveAccount of an account whose EVM balance is 0 the native balance record still holds %s (expected 0: one ledger)", c.Amount.BigInt())
	}
}

// C17.one-ledger-read-error: getOrCreateCurrencyBalance drops the error of the balance-store read (`coin, _ = ...`) and
// substitutes a zero coin. With an unreadable balance record the native read fails, but the keeper hands the EVM an
// account with balance 0 and no error; the next SetAccount then overwrites the record.
func TestVerifReplayC17ReadError(t *testing.T) {
	store, keeper, cur := vrC17Keeper(t)
	addr := vrC17KAddr(0x77)
	coin := Coin{Currency: cur, Amount: NewAmount(0)}
	if err := store.State.Set(store.BuildKey(addr, &coin), []byte("\x00not-an-amount")); err != nil {
		t.Fatal(err)
	}
	if _, err := store.GetBalanceForCurr(addr, &cur); err == nil {
		t.Skip("the corrupted record is readable by the native store: nothing to replay")
	}
	acc, err := keeper.NewAccountWithAddress(addr)
	if err == nil {
		t.Errorf("C17.one-ledger-read-error violated: the native read of the balance record fails, but the keeper returned an account with balance %s and no error (GetBalance = %s)", acc.Coins.Amount.BigInt(), keeper.GetBalance(addr))
	}
}
