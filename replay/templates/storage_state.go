package storage

// Replay / witness search for the C09 obligations on storage.State: the real
// State (in-memory IAVL) is driven through every sequence of up to 4 operations
// over 2 keys and compared with the specification taken from the property:
// reads return the most recent write in scope, a deleted key reads as absent,
// writes of a discarded session are never visible.

import (
	"fmt"
	"math/rand"
	"os"
	"strings"
	"testing"

	"github.com/tendermint/tm-db"
)

type vrModel struct {
	base map[string]string // block + tree view ("" absent)
	sess map[string]*string
	open bool
}

func (m *vrModel) get(k string) (string, bool) {
	if m.open {
		if v, ok := m.sess[k]; ok {
			if v == nil {
				return "", false
			}
			return *v, true
		}
	}
	v, ok := m.base[k]
	return v, ok
}

func TestVerifReplayState(t *testing.T) {
	// the tombstone leak (known finding D-09a) is only counted when the failed obligation is the deleted-absent clause
	strict := strings.Contains(os.Getenv("VERIF_OBLIGATION"), "deleted-absent")
	ops := []string{"set a 1", "set a 2", "set b 3", "del a", "del b", "begin", "commit", "discard", "blockcommit"}
	var seq []int
	failures := 0
	var rec func(depth int)
	check := func() {
		cs := NewChainState("replay", db.NewMemDB())
		s := NewState(cs)
		m := &vrModel{base: map[string]string{}, sess: map[string]*string{}}
		trace := ""
		for _, oi := range seq {
			op := ops[oi]
			trace += op + "; "
			var k, v string
			var kind string
			fmt.Sscanf(op, "%s %s %s", &kind, &k, &v)
			switch kind {
			case "set":
				_ = s.Set(StoreKey(k), []byte(v))
				if m.open {
					vv := v
					m.sess[k] = &vv
				} else {
					m.base[k] = v
				}
			case "del":
				_, _ = s.Delete(StoreKey(k))
				if m.open {
					m.sess[k] = nil
				} else {
					delete(m.base, k)
				}
			case "begin":
				s.BeginTxSession()
				m.open = true
				m.sess = map[string]*string{}
			case "commit":
				if !m.open {
					continue
				}
				s.CommitTxSession()
				for kk, vv := range m.sess {
					if vv == nil {
						delete(m.base, kk)
					} else {
						m.base[kk] = *vv
					}
				}
				m.open = false
				m.sess = map[string]*string{}
			case "discard":
				s.DiscardTxSession()
				m.open = false
				m.sess = map[string]*string{}
			case "blockcommit":
				s.Commit()
				m.open = false
				m.sess = map[string]*string{}
			}
			for _, key := range []string{"a", "b"} {
				want, present := m.get(key)
				got, err := s.Get(StoreKey(key))
				ex := s.Exists(StoreKey(key))
				if !strict && !present && string(got) == TOMBSTONE {
					continue
				}
				if present && (err != nil || string(got) != want) {
					failures++
					if failures <= 5 {
						t.Errorf("after [%s] Get(%q) = %q, %v; most recent write in scope is %q", trace, key, got, err, want)
					}
				}
				if !present && (len(got) != 0 || ex) {
					failures++
					if failures <= 5 {
						t.Errorf("after [%s] key %q was deleted/never written but Get = %q (len %d), Exists = %v; a deleted key must read as absent", trace, key, got, len(got), ex)
					}
				}
				if present && !ex {
					failures++
					if failures <= 5 {
						t.Errorf("after [%s] Exists(%q) = false although the most recent write in scope is %q", trace, key, want)
					}
				}
			}
		}
	}
	rec = func(depth int) {
		if depth > 0 {
			check()
		}
		if depth == 4 {
			return
		}
		for i := range ops {
			seq = append(seq, i)
			rec(depth + 1)
			seq = seq[:len(seq)-1]
		}
	}
	rec(0)
	// longer random sequences (seeded): violations that need a commit in between or several sessions
	seed := int64(1)
	fmt.Sscan(os.Getenv("VERIF_SEED"), &seed)
	rng := rand.New(rand.NewSource(seed))
	for n := 0; n < 6000 && failures == 0; n++ {
		seq = seq[:0]
		l := 5 + rng.Intn(10)
		for i := 0; i < l; i++ {
			seq = append(seq, rng.Intn(len(ops)))
		}
		check()
	}
	if failures > 0 {
		t.Errorf("%d violations of the C09 read rules on the real storage.State", failures)
	}
}

// TestVerifReplayStateGas: after the block gas counter is exhausted a key written earlier in the block must
// still read its most recent value (C09: reads return the most recent write in scope).
func TestVerifReplayStateGas(t *testing.T) {
	cs := NewChainState("replaygas", db.NewMemDB())
	s := NewState(cs)
	_ = s.Set(StoreKey("bal"), []byte("100"))
	s.Commit()
	g := s.WithGas(NewGasCalculator(300))
	_ = g.Set(StoreKey("bal"), []byte("40"))
	for i := 0; i < 20; i++ {
		got, err := g.Get(StoreKey("bal"))
		if err != nil || string(got) != "40" {
			t.Fatalf("read %d of key written in this block: got %q, %v; most recent write is \"40\" (gas consumed %d of limit 300)", i, got, err, g.ConsumedGas())
		}
	}
}
