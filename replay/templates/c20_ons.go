package ons_test

// Replays for the remaining C20 findings (property C20: domain names).
// External test package of data/ons (action/ons/ons_test.go does not build at the baseline, so nothing can be injected
// there); the real handlers are driven through the router (exported API only), the stores are in-memory (tm-db MemDB).
//
// D1  same-block sub-domains are invisible to DomainStore.IterateSubDomain (State.IterateRange walks the committed tree only)
// D2  int64 truncation (big.Int.Int64) / wrap-around of the expiry arithmetic

import (
	"encoding/json"
	"math"
	"math/big"
	"os"
	"testing"

	abci "github.com/tendermint/tendermint/abci/types"
	db2 "github.com/tendermint/tm-db"

	"github.com/Oneledger/protocol/action"
	actons "github.com/Oneledger/protocol/action/ons"
	"github.com/Oneledger/protocol/data/balance"
	"github.com/Oneledger/protocol/data/chain"
	"github.com/Oneledger/protocol/data/fees"
	"github.com/Oneledger/protocol/data/governance"
	"github.com/Oneledger/protocol/data/keys"
	"github.com/Oneledger/protocol/data/ons"
	"github.com/Oneledger/protocol/log"
	"github.com/Oneledger/protocol/storage"
)

const two63 = "9223372036854775808" // 2^63

type c20env struct {
	t      *testing.T
	st     *storage.State
	ctx    *action.Context
	olt    balance.Currency
	router action.Router
}

func newC20Env(t *testing.T, per, base string) *c20env {
	db := db2.NewDB("c20", db2.MemDBBackend, "")
	st := storage.NewState(storage.NewChainState("c20", db))
	ds := ons.NewDomainStore("d", st)
	bs := balance.NewStore("b", st)
	feePool := fees.NewStore("f", st)
	ct, _ := chain.TypeFromName("OneLedger")
	olt := balance.Currency{Id: 0, Name: "OLT", Chain: ct, Decimal: 18, Unit: "nue"}
	currencies := balance.NewCurrencySet()
	if err := currencies.Register(olt); err != nil {
		t.Fatal(err)
	}
	feePool.SetupOpt(&fees.FeeOption{FeeCurrency: olt, MinFeeDecimal: 9})
	gov := governance.NewStore("g", st)
	if err := gov.WithHeight(0).SetAllLUH(); err != nil {
		t.Fatal(err)
	}
	if err := gov.SetONSOptions(ons.Options{Currency: "OLT", PerBlockFees: c20amount(per), BaseDomainPrice: c20amount(base), FirstLevelDomains: []string{"ol"}}); err != nil {
		t.Fatal(err)
	}
	logger := log.NewLoggerWithPrefix(os.Stdout, "c20")
	router := action.NewRouter("c20")
	if err := actons.EnableONS(router); err != nil {
		t.Fatal(err)
	}
	ctx := action.NewContext(router, &abci.Header{Height: 1}, st, nil, bs, currencies, feePool, nil, nil, ds,
		nil, nil, nil, nil, nil, nil, nil, logger, nil, nil, gov, nil, nil, nil)
	return &c20env{t: t, st: st, ctx: ctx, olt: olt, router: router}
}

func c20amount(s string) balance.Amount {
	v, ok := big.NewInt(0).SetString(s, 10)
	if !ok {
		panic("bad number " + s)
	}
	return *balance.NewAmountFromBigInt(v)
}

func c20olt(s string) action.Amount { return action.Amount{Currency: "OLT", Value: c20amount(s)} }

// deliver runs the handler body exactly as DeliverTx does: tx session, ProcessDeliver, commit on success / discard on failure
func (e *c20env) deliver(typ action.Type, msg interface{}) bool {
	data, err := json.Marshal(msg)
	if err != nil {
		e.t.Fatal(err)
	}
	e.st.BeginTxSession()
	ok, resp := e.router.Handler(typ).ProcessDeliver(e.ctx, action.RawTx{Type: typ, Data: data})
	if ok {
		e.st.CommitTxSession()
	} else {
		e.st.DiscardTxSession()
		e.t.Logf("tx %v rejected: %s", typ, resp.Log)
	}
	return ok
}

func (e *c20env) mustDeliver(what string, typ action.Type, msg interface{}) {
	if !e.deliver(typ, msg) {
		e.t.Fatalf("replay set-up: %s was rejected", what)
	}
}

// endBlock commits the block (State.Commit) and moves the header to the next height
func (e *c20env) endBlock() {
	e.st.Commit()
	e.ctx.Header.Height = e.st.Version() + 1
}

func (e *c20env) fund(a keys.Address, s string) {
	if err := e.ctx.Balances.AddToAddress(a, e.olt.NewCoinFromAmount(c20amount(s))); err != nil {
		e.t.Fatal(err)
	}
}

func (e *c20env) get(n string) *ons.Domain {
	d, err := e.ctx.Domains.Get(ons.Name(n))
	if err != nil {
		e.t.Fatalf("replay set-up: %s not found: %v", n, err)
	}
	return d
}

var (
	c20A = keys.Address("AAAAAAAAAAAAAAAAAAAA")
	c20B = keys.Address("BBBBBBBBBBBBBBBBBBBB")
)

// ---------------------------------------------------------------- D1: same-block sub-domains

// C20.subs-deleted / data/ons.(*DomainStore).DeleteAllSubdomains
func TestVerifReplayC20DeleteAllSameBlock(t *testing.T) {
	db := db2.NewDB("c20", db2.MemDBBackend, "")
	st := storage.NewState(storage.NewChainState("c20", db))
	ds := ons.NewDomainStore("d", st)
	parent, _ := ons.NewDomain(c20A, nil, "abc.ol", 1, "", 1000, true)
	st.BeginTxSession()
	_ = ds.Set(parent)
	st.CommitTxSession()
	st.Commit()
	// next block, tx1: a sub-domain is written; tx2: all sub-domains of abc.ol are deleted
	sub, _ := ons.NewDomain(c20A, nil, "x.abc.ol", 2, "", 1000, true)
	st.BeginTxSession()
	_ = ds.Set(sub)
	st.CommitTxSession()
	st.BeginTxSession()
	if err := ds.DeleteAllSubdomains("abc.ol"); err != nil {
		t.Fatal(err)
	}
	st.CommitTxSession()
	st.Commit()
	if _, err := ds.Get("x.abc.ol"); err == nil {
		t.Errorf("C20.subs-deleted violated: DeleteAllSubdomains(abc.ol) returned nil but x.abc.ol (written earlier in the same block) still exists")
	}
}

func c20ParentOnSaleWithSameBlockSub(t *testing.T) *c20env {
	e := newC20Env(t, "100", "1000")
	e.fund(c20A, "1000000000")
	e.fund(c20B, "1000000000")
	e.endBlock()
	e.mustDeliver("create abc.ol", action.DOMAIN_CREATE, actons.DomainCreate{Owner: c20A, Name: "abc.ol", BuyingPrice: c20olt("1000000")})
	e.endBlock()
	return e
}

// C20.subs-deleted / action/ons.runPurchaseDomain
func TestVerifReplayC20PurchaseSameBlock(t *testing.T) {
	e := c20ParentOnSaleWithSameBlockSub(t)
	e.mustDeliver("put abc.ol on sale", action.DOMAIN_SELL, actons.DomainSale{Name: "abc.ol", OwnerAddress: c20A, Price: c20olt("500")})
	e.endBlock()
	// one block: A creates x.abc.ol, then B buys abc.ol
	e.mustDeliver("create x.abc.ol", action.DOMAIN_CREATE, actons.DomainCreate{Owner: c20A, Name: "x.abc.ol", BuyingPrice: c20olt("2000")})
	e.mustDeliver("purchase abc.ol", action.DOMAIN_PURCHASE, actons.DomainPurchase{Name: "abc.ol", Buyer: c20B, Account: c20B, Offering: c20olt("600")})
	e.endBlock()
	if string(e.get("abc.ol").Owner) != string(c20B) {
		t.Fatal("replay set-up: purchase did not transfer abc.ol")
	}
	if d, err := e.ctx.Domains.Get("x.abc.ol"); err == nil {
		upd := e.deliver(action.DOMAIN_UPDATE, actons.DomainUpdate{Owner: c20A, Beneficiary: c20A, Name: "x.abc.ol", Active: true})
		t.Errorf("C20.subs-deleted violated: after B bought abc.ol its sub-domain x.abc.ol still exists, owner %s (previous owner can still update it: %v)", string(d.Owner), upd)
	}
}

// C20.subs-deleted / action/ons.runDeleteSub
func TestVerifReplayC20DeleteSubSameBlock(t *testing.T) {
	e := c20ParentOnSaleWithSameBlockSub(t)
	e.mustDeliver("create x.abc.ol", action.DOMAIN_CREATE, actons.DomainCreate{Owner: c20A, Name: "x.abc.ol", BuyingPrice: c20olt("2000")})
	e.mustDeliver("delete all sub-domains of abc.ol", action.DOMAIN_DELETE_SUB, actons.DeleteSub{Name: "abc.ol", Owner: c20A})
	e.endBlock()
	if _, err := e.ctx.Domains.Get("x.abc.ol"); err == nil {
		t.Errorf("C20.subs-deleted violated: DOMAIN_DELETE_SUB(abc.ol) succeeded but x.abc.ol (created earlier in the same block) still exists")
	}
}

// C20.sub-expires-with-parent / action/ons.runRenew
func TestVerifReplayC20RenewSameBlockSub(t *testing.T) {
	e := c20ParentOnSaleWithSameBlockSub(t)
	e.mustDeliver("create x.abc.ol", action.DOMAIN_CREATE, actons.DomainCreate{Owner: c20A, Name: "x.abc.ol", BuyingPrice: c20olt("2000")})
	e.mustDeliver("renew abc.ol", action.DOMAIN_RENEW, actons.RenewDomain{Owner: c20A, Name: "abc.ol", BuyingPrice: c20olt("50000")})
	e.endBlock()
	p, s := e.get("abc.ol"), e.get("x.abc.ol")
	if s.ExpireHeight != p.ExpireHeight {
		t.Errorf("C20.sub-expires-with-parent violated: after renewing abc.ol (expiry %d) its sub-domain x.abc.ol created earlier in the same block still expires at %d", p.ExpireHeight, s.ExpireHeight)
	}
}

// ---------------------------------------------------------------- D2: expiry arithmetic in int64

// C20.expiry / data/ons.(*Domain).ResetAfterSale
func TestVerifReplayC20ResetAfterSaleWrap(t *testing.T) {
	d, _ := ons.NewDomain(c20A, nil, "abc.ol", 1, "", math.MaxInt64, true)
	d.ResetAfterSale(c20B, c20B, 1, 10)
	if d.ExpireHeight < math.MaxInt64 {
		t.Errorf("C20.expiry violated: ResetAfterSale(expiry 2^63-1, 1 more block) gives expiry %d (int64 addition wrapped)", d.ExpireHeight)
	}
}

// C20.expiry / action/ons.runCreate and action/ons.calculateExpiry
func TestVerifReplayC20CreateExpiry(t *testing.T) {
	e := newC20Env(t, "1", "0") // per-block fee 1 = the minimum governance validation accepts
	e.fund(c20A, "100000000000000000000")
	e.endBlock()
	v := e.st.Version()
	if !e.deliver(action.DOMAIN_CREATE, actons.DomainCreate{Owner: c20A, Name: "big.ol", BuyingPrice: c20olt(two63)}) {
		return // rejecting a payment whose block count does not fit is a valid repair
	}
	if x := e.get("big.ol").ExpireHeight; x < v {
		t.Errorf("C20.expiry violated: a payment of 2^63 units at 1 unit per block (2^63 blocks) created big.ol at version %d with expiry %d (Int64() truncation in calculateExpiry)", v, x)
	}
}

// C20.expiry / action/ons.runRenew and action/ons.calculateRenewal
func TestVerifReplayC20RenewExpiry(t *testing.T) {
	e := newC20Env(t, "1", "0")
	e.fund(c20A, "100000000000000000000")
	e.endBlock()
	e.mustDeliver("create abc.ol", action.DOMAIN_CREATE, actons.DomainCreate{Owner: c20A, Name: "abc.ol", BuyingPrice: c20olt("1000")})
	e.endBlock()
	before := e.get("abc.ol").ExpireHeight
	if !e.deliver(action.DOMAIN_RENEW, actons.RenewDomain{Owner: c20A, Name: "abc.ol", BuyingPrice: c20olt(two63)}) {
		return // rejecting a payment whose block count does not fit is a valid repair
	}
	if after := e.get("abc.ol").ExpireHeight; after < before {
		t.Errorf("C20.expiry violated: renewing abc.ol with 2^63 units at 1 unit per block moved its expiry from %d back to %d (Int64() truncation in calculateRenewal)", before, after)
	}
}

// C20.expiry / action/ons.runPurchaseDomain, name on sale
func TestVerifReplayC20PurchaseExpirySale(t *testing.T) {
	e := newC20Env(t, "1", "0")
	e.fund(c20A, "100000")
	e.fund(c20B, "100000000000000000000")
	e.endBlock()
	e.mustDeliver("create abc.ol", action.DOMAIN_CREATE, actons.DomainCreate{Owner: c20A, Name: "abc.ol", BuyingPrice: c20olt("1000")})
	e.endBlock()
	e.mustDeliver("put abc.ol on sale", action.DOMAIN_SELL, actons.DomainSale{Name: "abc.ol", OwnerAddress: c20A, Price: c20olt("500")})
	e.endBlock()
	before := e.get("abc.ol").ExpireHeight
	// offering = asking price 500 + 2^63 units for 2^63 more blocks
	if !e.deliver(action.DOMAIN_PURCHASE, actons.DomainPurchase{Name: "abc.ol", Buyer: c20B, Account: c20B, Offering: c20olt("9223372036854776308")}) {
		return // rejecting a payment whose block count does not fit is a valid repair
	}
	if after := e.get("abc.ol").ExpireHeight; after < before {
		t.Errorf("C20.expiry violated: buying abc.ol with 2^63 units beyond the asking price at 1 unit per block moved its expiry from %d back to %d", before, after)
	}
}

// C20.expiry / action/ons.runPurchaseDomain, expired name
func TestVerifReplayC20PurchaseExpiryExpired(t *testing.T) {
	e := newC20Env(t, "1", "0")
	e.fund(c20A, "100000")
	e.fund(c20B, "100000000000000000000")
	e.endBlock()
	e.mustDeliver("create abc.ol for 2 blocks", action.DOMAIN_CREATE, actons.DomainCreate{Owner: c20A, Name: "abc.ol", BuyingPrice: c20olt("2")})
	for i := 0; i < 5; i++ {
		e.endBlock()
	}
	v := e.st.Version()
	if e.get("abc.ol").ExpireHeight >= v {
		t.Fatal("replay set-up: abc.ol is not expired")
	}
	if !e.deliver(action.DOMAIN_PURCHASE, actons.DomainPurchase{Name: "abc.ol", Buyer: c20B, Account: c20B, Offering: c20olt(two63)}) {
		return // rejecting a payment whose block count does not fit is a valid repair
	}
	if after := e.get("abc.ol").ExpireHeight; after < v {
		t.Errorf("C20.expiry violated: buying the expired abc.ol at version %d with 2^63 units at 1 unit per block gives expiry %d", v, after)
	}
}
