package network_delegation

// Replays for the iter-stop obligations of the scans of package data/network_delegation: the wrapper closures
// answer `return true` (= stop the whole scan) when ONE record does not decode or ONE key does not parse, so every
// record that sorts after it is silently cut off.  Each test FAILS while that is so and would PASS if the wrappers
// skipped the record (`return false`) instead.

import (
	"testing"

	"github.com/Oneledger/protocol/data/balance"
	"github.com/Oneledger/protocol/data/chain"
	"github.com/Oneledger/protocol/data/keys"
	"github.com/Oneledger/protocol/storage"
	db "github.com/tendermint/tm-db"
)

func vrIterAddr(t *testing.T) keys.Address {
	pub, _, err := keys.NewKeyPairFromTendermint()
	if err != nil {
		t.Fatal(err)
	}
	h, err := pub.GetHandler()
	if err != nil {
		t.Fatal(err)
	}
	return h.Address()
}

func vrIterState() *storage.State {
	return storage.NewState(storage.NewChainState("chainstate", db.NewDB("c12", db.MemDBBackend, "")))
}

var vrOLT = balance.Currency{Id: 0, Name: "OLT", Chain: chain.ONELEDGER, Decimal: 18, Unit: "nue"}

// C12.scan/(*Store).iterate/iter-stop: a record of the scanned prefix whose bytes do not decode ends the scan.
// Seen through IteratePendingAmounts(5), the scan of the BeginBlock hook: the matured record of d is never visited.
func TestVerifReplayIterateStopsOnBadRecord(t *testing.T) {
	state := vrIterState()
	st := NewStore("deleg", state)
	d := vrIterAddr(t)
	c := vrOLT.NewCoinFromAmount(*balance.NewAmount(50))
	if err := st.SetPendingAmount(d, 5, &c); err != nil {
		t.Fatal(err)
	}
	// an undecodable record that sorts before every address ("0lt!" < "0lt0")
	if err := st.State.Set(storage.StoreKey("deleg_p_5_0lt!"), []byte("not a coin")); err != nil {
		t.Fatal(err)
	}
	state.Commit()
	visited := 0
	st.IteratePendingAmounts(5, func(addr *keys.Address, coin *balance.Coin) bool {
		visited++
		return false
	})
	if visited != 1 {
		t.Errorf("C12.scan iter-stop violated ((*Store).iterate): one undecodable record under the prefix ended the scan; IteratePendingAmounts(5) visited %d records, want 1 (the matured record of %s is cut off)", visited, d.String())
	}
}

// C12.scan/(*Store).IterateAllPendingAmounts/iter-stop: a key whose address segment does not parse ends the scan.
func TestVerifReplayIterateAllPendingStops(t *testing.T) {
	state := vrIterState()
	st := NewStore("deleg", state)
	d := vrIterAddr(t)
	c := vrOLT.NewCoinFromAmount(*balance.NewAmount(50))
	if err := st.SetPendingAmount(d, 5, &c); err != nil {
		t.Fatal(err)
	}
	// a decodable coin under a key whose last segment is not an address; sorts before every address
	if err := st.set(storage.StoreKey("deleg_p_5_0lt!"), &c); err != nil {
		t.Fatal(err)
	}
	state.Commit()
	visited := 0
	st.IterateAllPendingAmounts(func(height int64, addr *keys.Address, coin *balance.Coin) bool {
		visited++
		return false
	})
	if visited != 1 {
		t.Errorf("C12.scan iter-stop violated ((*Store).IterateAllPendingAmounts): one key with an unparsable address ended the scan; visited %d records, want 1", visited)
	}
}

// C12.scan/(*DelegRewardStore).IterateAllPD/iter-stop: a key whose address segment does not parse ends the scan.
func TestVerifReplayIterateAllPDStops(t *testing.T) {
	state := vrIterState()
	rs := NewDelegRewardStore("rew", state)
	d := vrIterAddr(t)
	if err := rs.SetPendingRewards(d, balance.NewAmount(50), 5); err != nil {
		t.Fatal(err)
	}
	if err := rs.set(storage.StoreKey("rew_pending_5_0lt!"), balance.NewAmount(1)); err != nil {
		t.Fatal(err)
	}
	state.Commit()
	visited := 0
	rs.IterateAllPD(func(height int64, a keys.Address, amt *balance.Amount) bool {
		visited++
		return false
	})
	if visited != 1 {
		t.Errorf("C12.scan iter-stop violated ((*DelegRewardStore).IterateAllPD): one key with an unparsable address ended the scan; visited %d records, want 1", visited)
	}
}

// C12.scan/(*DelegRewardStore).IteratePD/iter-stop: the maturity scan of one height. A key of that height whose address
// segment does not parse (it sorts before every well-formed "0lt..." address) ends the scan: the pending withdrawal
// of d at the same height is never visited, i.e. never paid by the BeginBlock hook.
func TestVerifReplayIteratePDStops(t *testing.T) {
	state := vrIterState()
	rs := NewDelegRewardStore("rew", state)
	d := vrIterAddr(t)
	if err := rs.SetPendingRewards(d, balance.NewAmount(50), 5); err != nil {
		t.Fatal(err)
	}
	if err := rs.set(storage.StoreKey("rew_pending_5_0lt!"), balance.NewAmount(1)); err != nil {
		t.Fatal(err)
	}
	state.Commit()
	visited := 0
	rs.IteratePD(5, func(a keys.Address, amt *balance.Amount) bool {
		visited++
		return false
	})
	if visited != 1 {
		t.Errorf("C12.scan iter-stop violated ((*DelegRewardStore).IteratePD): one key with an unparsable address ended the scan of height 5; visited %d records, want 1", visited)
	}
}
