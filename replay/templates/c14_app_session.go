package app

// Replay for C06.session-closed on app.ExpireProposals / app.FinalizeProposals (property C14/C06: every queued internal
// transaction runs inside a tx session that is committed or discarded before the runner returns).
// Injected as app/zz_verif_replay_test.go. Builds its own context over tm-db MemDB.
//
// NOTE: package app's own TestMain (application_test.go) calls os.Exit without m.Run(), so no Test function of this
// package is ever executed. The init() below therefore runs the selected replay itself when the test binary is started
// with -test.run matching its name, and exits with status 1 (go test: FAIL) when the defect is present.

import (
	"fmt"
	"os"
	"regexp"
	"strings"
	"testing"

	abciTypes "github.com/tendermint/tendermint/abci/types"
	tmdb "github.com/tendermint/tm-db"

	"github.com/Oneledger/protocol/action"
	"github.com/Oneledger/protocol/config"
	"github.com/Oneledger/protocol/data"
	"github.com/Oneledger/protocol/data/balance"
	"github.com/Oneledger/protocol/data/bitcoin"
	"github.com/Oneledger/protocol/data/delegation"
	"github.com/Oneledger/protocol/data/ethereum"
	"github.com/Oneledger/protocol/data/evidence"
	"github.com/Oneledger/protocol/data/evm"
	"github.com/Oneledger/protocol/data/fees"
	"github.com/Oneledger/protocol/data/governance"
	netwkDeleg "github.com/Oneledger/protocol/data/network_delegation"
	"github.com/Oneledger/protocol/data/ons"
	"github.com/Oneledger/protocol/data/transactions"
	"github.com/Oneledger/protocol/identity"
	"github.com/Oneledger/protocol/log"
	"github.com/Oneledger/protocol/storage"
	"github.com/Oneledger/protocol/vm"
)

func vrC14Context() *context {
	cfg := config.DefaultServerConfig()
	cfg.Node = &config.NodeConfig{NodeName: "c14replay", DBDir: "unused", DB: "goleveldb"}
	cs := storage.NewChainState("c14", tmdb.NewDB("c14", tmdb.MemDBBackend, ""))
	st := func() *storage.State { return storage.NewState(cs) }
	ctx := &context{cfg: *cfg, logWriter: os.Stdout, currencies: balance.NewCurrencySet()}
	ctx.chainstate = cs
	ctx.deliver = storage.NewState(cs)
	ctx.check = storage.NewState(cs)
	ctx.validators = identity.NewValidatorStore("v", "purged", st())
	ctx.witnesses = identity.NewWitnessStore("w", st())
	ctx.balances = balance.NewStore("b", st())
	ctx.domains = ons.NewDomainStore("d", st())
	ctx.feePool = fees.NewStore("f", st())
	ctx.govern = governance.NewStore("g", st())
	ctx.proposalMaster = NewProposalMasterStore(cs)
	ctx.delegators = delegation.NewDelegationStore("st", st())
	ctx.netwkDelegators = netwkDeleg.NewMasterStore("deleg", "delegRwz", st())
	ctx.evidenceStore = evidence.NewEvidenceStore("es", st())
	ctx.rewardMaster = NewRewardMasterStore(cs)
	ctx.btcTrackers = bitcoin.NewTrackerStore("btct", st())
	ctx.ethTrackers = ethereum.NewTrackerStore("etht", "ethfailed", "ethsuccess", st())
	ctx.transaction = transactions.NewTransactionStore("intx", storage.NewState(storage.NewChainState("chainstateTX", tmdb.NewDB("internaltxdb", tmdb.MemDBBackend, ""))))
	ctx.actionRouter = action.NewRouter("action")
	ctx.internalRouter = action.NewRouter("internal")
	ctx.extStores = data.NewStorageRouter()
	ctx.contracts = evm.NewContractStore(st())
	ctx.accountKeeper = balance.NewNesterAccountKeeper(st(), ctx.balances, ctx.currencies)
	ctx.stateDB = vm.NewCommitStateDB(ctx.contracts, ctx.accountKeeper, log.NewLoggerWithPrefix(os.Stdout, "stateDB"))
	ctx.govupdate = action.NewGovUpdate()
	return ctx
}

// a tx session is open on s iff a write through s is invisible to a second State over the same chain state cache... the
// State type does not export its session; observe it through behaviour: a value written now disappears on DiscardTxSession
func vrC14SessionOpen(s *storage.State) bool {
	key := storage.StoreKey("c14replay_probe")
	_ = s.Set(key, []byte("x"))
	s.DiscardTxSession()
	return !s.Exists(key)
}

// vrC14SessionLeftOpen queues one internal transaction whose payload does not decode and runs the given runner.
// It returns a non-empty message when the runner returns with the tx session still open.
func vrC14SessionLeftOpen(which string) string {
	ctx := vrC14Context()
	logger := log.NewLoggerWithPrefix(os.Stdout, "c14replay")
	bad := abciTypes.RequestDeliverTx{Tx: []byte("{this is not json")}
	header := Header{Height: 100}
	switch which {
	case "expire":
		if err := ctx.transaction.AddExpired("aaaa", &bad); err != nil {
			return ""
		}
		ctx.transaction.State.Commit()
		ExpireProposals(&header, ctx, logger)
	case "finalize":
		if err := ctx.transaction.AddFinalized("aaaa", &bad); err != nil {
			return ""
		}
		ctx.transaction.State.Commit()
		FinalizeProposals(&header, ctx, logger)
	}
	if vrC14SessionOpen(ctx.deliver) {
		return "C06.session-closed violated: " + which + " runner returned with the deliver State's tx session still open (BeginTxSession, then `continue` after the failed Unmarshal: neither CommitTxSession nor DiscardTxSession); writes of the following EndBlock steps go into that stale session"
	}
	return ""
}

func TestVerifReplayC14SessionLeftOpenExpire(t *testing.T) {
	if msg := vrC14SessionLeftOpen("expire"); msg != "" {
		t.Errorf("%s", msg)
	}
}

func TestVerifReplayC14SessionLeftOpenFinalize(t *testing.T) {
	if msg := vrC14SessionLeftOpen("finalize"); msg != "" {
		t.Errorf("%s", msg)
	}
}

// see the NOTE at the top: TestMain of this package never runs the Test functions
func init() {
	for i, a := range os.Args {
		pat := ""
		if strings.HasPrefix(a, "-test.run=") {
			pat = strings.TrimPrefix(a, "-test.run=")
		} else if a == "-test.run" && i+1 < len(os.Args) {
			pat = os.Args[i+1]
		}
		if pat == "" {
			continue
		}
		re, err := regexp.Compile(pat)
		if err != nil {
			return
		}
		for name, which := range map[string]string{"TestVerifReplayC14SessionLeftOpenExpire": "expire", "TestVerifReplayC14SessionLeftOpenFinalize": "finalize"} {
			if re.MatchString(name) {
				if msg := vrC14SessionLeftOpen(which); msg != "" {
					fmt.Printf("--- FAIL: %s\n    %s\nFAIL\n", name, msg)
					os.Exit(1)
				}
			}
		}
	}
}
