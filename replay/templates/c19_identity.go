package identity

// Replays for the remaining C19 claims on identity/validator_set_allegation.go
// (contracts: /repo/identity/verif_contracts_allegation.go). Self-contained: builds its own stores on a tm-db MemDB.

import (
	"testing"
	"time"

	"github.com/tendermint/tendermint/abci/types"
	"github.com/tendermint/tendermint/crypto/ed25519"
	db "github.com/tendermint/tm-db"

	"github.com/Oneledger/protocol/data/balance"
	"github.com/Oneledger/protocol/data/chain"
	"github.com/Oneledger/protocol/data/delegation"
	"github.com/Oneledger/protocol/data/evidence"
	"github.com/Oneledger/protocol/data/fees"
	"github.com/Oneledger/protocol/data/governance"
	"github.com/Oneledger/protocol/data/keys"
	"github.com/Oneledger/protocol/storage"
)

type vr19Key struct {
	addr keys.Address
	pub  keys.PublicKey
}

func vr19NewKey() vr19Key {
	p := ed25519.GenPrivKey()
	return vr19Key{addr: keys.Address(p.PubKey().Address().Bytes()), pub: keys.PublicKey{KeyType: keys.ED25519, Data: p.PubKey().Bytes()[5:]}}
}

// two registered validators a (honest) and m (accused), both with an active status record since height 1;
// evidence options: MinVotesRequired 2 in a window of BlockVotesDiff 3 blocks, release time 5 days,
// vote share 100%, allegation share 50%, penalty 30%, bounty 50% of it
func vr19Ctx(a, m vr19Key) *ValidatorContext {
	cs := storage.NewState(storage.NewChainState("c19", db.NewMemDB()))
	balances := balance.NewStore("tb", cs)
	currencies := balance.NewCurrencySet()
	currency := balance.Currency{Id: 0, Name: "OLT", Chain: chain.ONELEDGER, Decimal: 18, Unit: "nue"}
	_ = currencies.Register(currency)
	feeOpt := &fees.FeeOption{FeeCurrency: currency, MinFeeDecimal: 9}
	feePool := &fees.Store{}
	feePool.SetupOpt(feeOpt)
	delegators := delegation.NewDelegationStore("tst", cs)
	es := evidence.NewEvidenceStore("tes", cs)
	govern := governance.NewStore("tg", cs)
	validators := NewValidatorStore("tv", "purged", cs)
	_ = govern.SetFeeOption(*feeOpt)
	_ = govern.SetEvidenceOptions(evidence.Options{
		MinVotesRequired: 2, BlockVotesDiff: 3,
		PenaltyBasePercentage: 30, PenaltyBaseDecimals: 100,
		PenaltyBountyPercentage: 50, PenaltyBountyDecimals: 100,
		PenaltyBurnPercentage: 50, PenaltyBurnDecimals: 100,
		ValidatorReleaseTime: 5, ValidatorVotePercentage: 100, ValidatorVoteDecimals: 100,
		AllegationPercentage: 50, AllegationDecimals: 100,
	})
	govern.WithHeight(0).SetAllLUH()
	_ = govern.SetProposalOptions(governance.ProposalOptionSet{BountyProgramAddr: "oneledgerBountyProgram"})
	for _, k := range []vr19Key{a, m} {
		_ = validators.Set(*NewValidator(k.addr, k.addr, k.pub, k.pub, *balance.NewAmountFromInt(0), "node"))
		_ = es.SetValidatorStatus(k.addr, true, 1)
	}
	ctx := NewValidatorContext(balances, feePool, delegators, es, govern, currencies, validators)
	return ctx
}

// blocks 1..n: a signs every block, m signs none; each block is committed (the tally and the missed-vote check
// read the validator records of the previous committed version)
func vr19Blocks(ctx *ValidatorContext, a, m vr19Key, n int64) {
	opts, _ := ctx.Govern.GetEvidenceOptions()
	for i := int64(1); i <= n; i++ {
		votes := []types.VoteInfo{
			{Validator: types.Validator{Address: a.addr}, SignedLastBlock: true},
			{Validator: types.Validator{Address: m.addr}, SignedLastBlock: i == 1},
		}
		_ = ctx.EvidenceStore.SetVoteBlock(i, votes)
		cv, _ := ctx.EvidenceStore.GetCumulativeVote()
		_ = ctx.EvidenceStore.SetCumulativeVote(cv, i, opts.BlockVotesDiff)
		ctx.Validators.store.Commit()
	}
}

// C19.no-downgrade (CheckMaliciousValidators): a validator frozen for a BYZANTINE_FAULT that also misses votes gets
// its record overwritten with MISSED_REQUIRED_VOTES at the next block begin and can then be released at once.
func TestVerifReplayCheckMaliciousDowngrade(t *testing.T) {
	a, m := vr19NewKey(), vr19NewKey()
	ctx := vr19Ctx(a, m)
	verdictAt := time.Date(2020, 1, 1, 0, 0, 0, 0, time.UTC)
	// the GUILTY verdict falls in block 3 (written before that block is committed; only the last committed
	// version is kept by the test chain state)
	if _, err := ctx.EvidenceStore.CreateSuspiciousValidator(m.addr, evidence.BYZANTINE_FAULT, 3, &verdictAt); err != nil {
		t.Fatal(err)
	}
	vr19Blocks(ctx, a, m, 3)
	// begin of block 4, one second later
	now := verdictAt.Add(time.Second)
	ctx.Validators.lastHeight = 4
	ctx.Validators.lastBlockTime = &now
	if err := ctx.Validators.CheckMaliciousValidators(ctx.EvidenceStore, ctx.Govern); err != nil {
		t.Fatal(err)
	}
	lvh, err := ctx.EvidenceStore.GetSuspiciousValidator(m.addr, 0, 0)
	if err != nil {
		t.Fatal(err)
	}
	opts, _ := ctx.Govern.GetEvidenceOptions()
	relErr := ctx.EvidenceStore.HandleRelease(opts, m.addr, 4, now.Add(time.Second))
	if lvh.Status != evidence.BYZANTINE_FAULT || relErr == nil {
		t.Errorf("C19.no-downgrade violated: BYZANTINE_FAULT record of the guilty validator now has status %d (MISSED_REQUIRED_VOTES=%d); release 2s after the verdict (release time %d days) returned err=%v",
			lvh.Status, evidence.MISSED_REQUIRED_VOTES, opts.ValidatorReleaseTime, relErr)
	}
}

// C19.frozen-dropped (CheckMaliciousValidators): while height <= BlockVotesDiff the function returns before loading the
// frozen validators, so vs.maliciousValidators (what GetEndBlockUpdate uses to drop validators) stays empty.
func TestVerifReplayFrozenNotDropped(t *testing.T) {
	a, m := vr19NewKey(), vr19NewKey()
	ctx := vr19Ctx(a, m)
	verdictAt := time.Date(2020, 1, 1, 0, 0, 0, 0, time.UTC)
	if _, err := ctx.EvidenceStore.CreateSuspiciousValidator(m.addr, evidence.BYZANTINE_FAULT, 2, &verdictAt); err != nil {
		t.Fatal(err)
	}
	vr19Blocks(ctx, a, m, 2)
	now := verdictAt.Add(time.Second)
	ctx.Validators.lastHeight = 3 // == BlockVotesDiff
	ctx.Validators.lastBlockTime = &now
	if err := ctx.Validators.CheckMaliciousValidators(ctx.EvidenceStore, ctx.Govern); err != nil {
		t.Fatal(err)
	}
	if _, in := ctx.Validators.maliciousValidators[m.addr.String()]; !in && ctx.EvidenceStore.IsFrozenValidator(m.addr) {
		t.Errorf("C19.frozen-dropped violated: validator %s is frozen (committed BYZANTINE_FAULT record) but is not in vs.maliciousValidators after CheckMaliciousValidators at height %d <= BlockVotesDiff: it stays in the validator set",
			m.addr, ctx.Validators.lastHeight)
	}
}

// C19.votes-of-active-only (ExecuteAllegationTracker): the YES vote of a validator that has left the active set
// still counts, while the required count is computed from the current active count.
func TestVerifReplayStaleVoteCounts(t *testing.T) {
	a, m := vr19NewKey(), vr19NewKey()
	ctx := vr19Ctx(a, m)
	vr19Blocks(ctx, a, m, 3)
	if err := ctx.EvidenceStore.PerformAllegation(a.addr, m.addr, "req-1", 3, "proof"); err != nil {
		t.Fatal(err)
	}
	if err := ctx.EvidenceStore.Vote("req-1", a.addr, evidence.YES); err != nil {
		t.Fatal(err)
	}
	// a leaves the active set; a third validator (who never voted) is the only active one at the tally
	_ = ctx.EvidenceStore.SetValidatorStatus(a.addr, false, 4)
	ctx.Validators.store.Commit()
	now := time.Date(2020, 1, 1, 0, 0, 0, 0, time.UTC)
	ctx.Validators.lastHeight = 5
	ctx.Validators.lastBlockTime = &now
	if err := ctx.Validators.ExecuteAllegationTracker(ctx, 1); err != nil {
		t.Fatal(err)
	}
	if ctx.EvidenceStore.IsFrozenValidator(m.addr) && !ctx.EvidenceStore.IsActiveValidator(a.addr) {
		t.Errorf("C19.votes-of-active-only violated: %s was declared GUILTY and frozen on the single YES vote of %s, which is not an active validator at the tally (active count 1, no active validator voted)", m.addr, a.addr)
	}
}

// C19.guilty-penalised (ExecuteAllegationTracker): an accused address without a validator record in the previous
// state is frozen, but the branch `continue`s before any penalty; the request is never closed, so every later
// block freezes it again with a new FrozenAt (it can never reach its release time).
func TestVerifReplayGuiltyNotPenalised(t *testing.T) {
	a, m := vr19NewKey(), vr19NewKey()
	ctx := vr19Ctx(a, m)
	vr19Blocks(ctx, a, m, 3)
	outsider := vr19NewKey() // never staked: no validator record
	if err := ctx.EvidenceStore.PerformAllegation(a.addr, outsider.addr, "req-2", 3, "proof"); err != nil {
		t.Fatal(err)
	}
	if err := ctx.EvidenceStore.Vote("req-2", a.addr, evidence.YES); err != nil {
		t.Fatal(err)
	}
	ctx.Validators.store.Commit()
	t1 := time.Date(2020, 1, 1, 0, 0, 0, 0, time.UTC)
	ctx.Validators.lastHeight = 5
	ctx.Validators.lastBlockTime = &t1
	if err := ctx.Validators.ExecuteAllegationTracker(ctx, 1); err != nil {
		t.Fatal(err)
	}
	frozen := ctx.EvidenceStore.IsFrozenValidator(outsider.addr)
	_, unErr := func() (*Unstake, error) {
		ctx.Validators.lastHeight = 6
		defer func() { ctx.Validators.lastHeight = 5 }()
		return ctx.Validators.GetDelayUnstake(outsider.addr)
	}()
	at, _ := ctx.EvidenceStore.GetAllegationTracker()
	// next block: same tally again
	ctx.Validators.store.Commit()
	t2 := t1.Add(24 * time.Hour)
	ctx.Validators.lastHeight = 6
	ctx.Validators.lastBlockTime = &t2
	_ = ctx.Validators.ExecuteAllegationTracker(ctx, 1)
	lvh, _ := ctx.EvidenceStore.GetSuspiciousValidator(outsider.addr, 0, 0)
	if frozen && unErr != nil {
		refrozen := lvh != nil && lvh.FrozenAt != nil && lvh.FrozenAt.Equal(t2)
		t.Errorf("C19.guilty-penalised violated: %s was declared GUILTY and frozen but no penalty was applied (no delayed unstake recorded: %v); request still tracked: %v; frozen again one block later with a new FrozenAt: %v",
			outsider.addr, unErr, at.Requests["req-2"], refrozen)
	}
}
