package evidence

// Replay for the remaining C19 claim on the allegation handler (contracts: /repo/action/evidence/verif_contracts.go).
// Self-contained: builds its own context on a tm-db MemDB.

import (
	"testing"
	"time"

	abci "github.com/tendermint/tendermint/abci/types"
	db "github.com/tendermint/tm-db"

	"github.com/Oneledger/protocol/action"
	"github.com/Oneledger/protocol/data/evidence"
	"github.com/Oneledger/protocol/data/governance"
	"github.com/Oneledger/protocol/data/keys"
	"github.com/Oneledger/protocol/log"
	"github.com/Oneledger/protocol/storage"
)

// C19.open-not-frozen (runAllegationTransaction): the handler checks IsFrozenValidator only for the ACCUSED address.
// A reporter that was found guilty and frozen, but whose status record still says active (it is only switched at the
// end of the following block, or not at all while height <= BlockVotesDiff), opens an allegation.
func TestVerifReplayFrozenReporterOpens(t *testing.T) {
	cs := storage.NewState(storage.NewChainState("c19", db.NewMemDB()))
	ctx := &action.Context{}
	ctx.State = cs
	ctx.Header = &abci.Header{Height: 10}
	ctx.Logger = new(log.Logger)
	ctx.EvidenceStore = evidence.NewEvidenceStore("tes", cs)
	ctx.GovernanceStore = governance.NewStore("tg", cs)
	reporter := keys.Address("frozen-reporter-20by")
	accused := keys.Address("accused-validator-20")
	_ = ctx.EvidenceStore.SetValidatorStatus(reporter, true, 1)
	_ = ctx.EvidenceStore.SetValidatorStatus(accused, true, 1)
	verdictAt := time.Date(2020, 1, 1, 0, 0, 0, 0, time.UTC)
	if _, err := ctx.EvidenceStore.CreateSuspiciousValidator(reporter, evidence.BYZANTINE_FAULT, 9, &verdictAt); err != nil {
		t.Fatal(err)
	}
	if !ctx.EvidenceStore.IsFrozenValidator(reporter) {
		t.Fatal("setup: reporter must be frozen")
	}
	msg := Allegation{RequestID: "req-frozen", ValidatorAddress: reporter, MaliciousAddress: accused, BlockHeight: 9, ProofMsg: "p"}
	data, err := msg.Marshal()
	if err != nil {
		t.Fatal(err)
	}
	ok, _ := runAllegationTransaction(ctx, action.RawTx{Type: action.ALLEGATION, Data: data})
	if ok {
		t.Errorf("C19.open-not-frozen violated: the frozen (BYZANTINE_FAULT) validator %s opened allegation %q against %s; request stored: %v",
			reporter, msg.RequestID, accused, ctx.EvidenceStore.IsRequestIDBusy(msg.RequestID))
	}
}
