package olvm

// Replay for the remaining C04 claims clause of the OLVM handler (action/olvm/verif_contracts.go):
//   C04.validate   (olvmTx).Validate   "result0 ==> the signature covers exactly type, payload, fee and memo"
// The embedded Ethereum signature covers only (nonce, to, value, Fee.Gas, Fee.Price, data, chain id); the payload fields
// `accessList` and `type` (and Signatures[0].Signer) can be changed after signing and the transaction is still accepted;
// the access list changes the gas the sender is charged.
// Self-contained: in-memory stores (tm-db MemDB), own key and signing helper.

import (
	"crypto/ecdsa"
	"encoding/json"
	"io/ioutil"
	"math/big"
	"strconv"
	"testing"
	"time"

	"github.com/Oneledger/protocol/action"
	"github.com/Oneledger/protocol/data/balance"
	"github.com/Oneledger/protocol/data/chain"
	"github.com/Oneledger/protocol/data/evm"
	"github.com/Oneledger/protocol/data/fees"
	"github.com/Oneledger/protocol/data/keys"
	"github.com/Oneledger/protocol/log"
	"github.com/Oneledger/protocol/storage"
	"github.com/Oneledger/protocol/utils"
	"github.com/Oneledger/protocol/vm"
	ethcmn "github.com/ethereum/go-ethereum/common"
	ethtypes "github.com/ethereum/go-ethereum/core/types"
	ethcrypto "github.com/ethereum/go-ethereum/crypto"
	abci "github.com/tendermint/tendermint/abci/types"
	db "github.com/tendermint/tm-db"
)

func vrC17Ctx(t *testing.T) *action.Context {
	mem := db.NewMemDB()
	gc := storage.NewGasCalculator(100100500)
	cs := storage.NewState(storage.NewChainState("balance", mem)).WithGas(gc)
	ctx := &action.Context{}
	ctx.State = cs
	ctx.Balances = balance.NewStore("tb", cs)
	ctx.Currencies = balance.NewCurrencySet()
	cur := balance.Currency{Name: "OLT", Chain: chain.Type(1), Decimal: 18}
	if err := ctx.Currencies.Register(cur); err != nil {
		t.Fatal(err)
	}
	ctx.FeeOpt = &fees.FeeOption{FeeCurrency: balance.Currency{Id: 0, Name: "OLT", Chain: 0, Decimal: 18, Unit: "nue"}, MinFeeDecimal: 9}
	ctx.FeePool = fees.NewStore("f", cs)
	ctx.FeePool.SetupOpt(ctx.FeeOpt)
	ctx.Header = &abci.Header{Height: 1, Time: time.Unix(1600000000, 0), ChainID: "test-1"}
	ctx.Logger = log.NewLoggerWithPrefix(ioutil.Discard, "replay")
	ctx.StateDB = vm.NewCommitStateDB(
		evm.NewContractStore(storage.NewState(storage.NewChainState("contracts", mem)).WithGas(gc)),
		balance.NewNesterAccountKeeper(storage.NewState(storage.NewChainState("keeper", mem)).WithGas(gc), ctx.Balances, ctx.Currencies),
		ctx.Logger,
	)
	ctx.StateDB.SetBlockHash(ethcmn.BytesToHash([]byte("block")))
	return ctx
}

// vrC17Sign builds the OLVM transaction a wallet would send: payload + outer fee + memo, with the EIP-155 signature of
// the corresponding legacy Ethereum transaction in Signatures[0].Signed.
func vrC17Sign(t *testing.T, ctx *action.Context, key *ecdsa.PrivateKey, to keys.Address, nonce uint64, value *big.Int, gas uint64) action.SignedTx {
	from := keys.Address(ethcrypto.PubkeyToAddress(key.PublicKey).Bytes())
	chainID := utils.HashToBigInt(ctx.Header.ChainID)
	payload := Transaction{From: from, To: &to, Amount: action.Amount{Currency: "OLT", Value: *balance.NewAmountFromBigInt(value)}, Data: []byte{}, Nonce: nonce, ChainID: chainID}
	data, err := payload.Marshal()
	if err != nil {
		t.Fatal(err)
	}
	fee := action.Fee{Price: action.Amount{Currency: "OLT", Value: *balance.NewAmount(vm.DefaultGasPrice.Int64())}, Gas: int64(gas)}
	ethTo := ethcmn.BytesToAddress(to)
	ethTx := ethtypes.NewTx(&ethtypes.LegacyTx{Nonce: nonce, GasPrice: fee.Price.Value.BigInt(), Gas: gas, To: &ethTo, Value: value, Data: []byte{}})
	signer := ethtypes.NewEIP155Signer(chainID)
	sig, err := ethcrypto.Sign(signer.Hash(ethTx).Bytes(), key)
	if err != nil {
		t.Fatal(err)
	}
	return action.SignedTx{
		RawTx:      action.RawTx{Type: payload.Type(), Data: data, Fee: fee, Memo: strconv.FormatUint(nonce, 10)},
		Signatures: []action.Signature{{Signed: sig}},
	}
}

// the attacker's edit: re-encode the payload with an access list of n addresses and another `type`
func vrC17Mutate(t *testing.T, stx action.SignedTx, n int, txType int64) action.SignedTx {
	p := &Transaction{}
	if err := json.Unmarshal(stx.Data, p); err != nil {
		t.Fatal(err)
	}
	al := make(ethtypes.AccessList, n)
	for i := range al {
		al[i] = ethtypes.AccessTuple{Address: ethcmn.BigToAddress(big.NewInt(int64(1000 + i))), StorageKeys: []ethcmn.Hash{}}
	}
	p.AccessList = &al
	p.TxType = txType
	d, err := p.Marshal()
	if err != nil {
		t.Fatal(err)
	}
	out := stx
	out.Data = d
	return out
}

func TestVerifReplayC17PayloadMalleable(t *testing.T) {
	ctx := vrC17Ctx(t)
	key, err := ethcrypto.GenerateKey()
	if err != nil {
		t.Fatal(err)
	}
	from := keys.Address(ethcrypto.PubkeyToAddress(key.PublicKey).Bytes())
	to := keys.Address(ethcmn.BigToAddress(big.NewInt(0xbeef)).Bytes())
	cur, _ := ctx.Currencies.GetCurrencyByName("OLT")
	funded := balance.NewEthAccount(from, balance.Coin{Currency: cur, Amount: balance.NewAmountFromBigInt(new(big.Int).Mul(big.NewInt(10000), big.NewInt(1e18)))})
	if err := ctx.StateDB.GetAccountKeeper().SetAccount(*funded); err != nil {
		t.Fatal(err)
	}
	h := olvmTx{}
	orig := vrC17Sign(t, ctx, key, to, 0, big.NewInt(100), 200000)
	ok, err := h.Validate(ctx, orig)
	if !ok || err != nil {
		t.Fatalf("setup: the untampered transaction must validate, got %v %v", ok, err)
	}
	mut := vrC17Mutate(t, orig, 30, 7)
	if string(mut.Data) == string(orig.Data) {
		t.Fatal("setup: mutation did not change the payload bytes")
	}
	ok, err = h.Validate(ctx, mut)
	if !ok {
		return // repaired: a payload changed after signing is rejected
	}
	t.Errorf("C04.validate violated: payload changed after signing (30 access-list addresses added, type 0 -> 7, %d -> %d bytes) and Validate still returns true (err=%v): the signature does not cover the payload", len(orig.Data), len(mut.Data), err)
	// the effect: the sender is charged for the injected access list
	ctx.StateDB.Prepare(ethcmn.BytesToHash([]byte("tx")))
	okD, resp := h.ProcessDeliver(ctx, mut.RawTx)
	t.Logf("deliver of the tampered transaction: ok=%v gasUsed=%d (the signed plain transfer costs %d)", okD, resp.GasUsed, vm.TxGas)
}
