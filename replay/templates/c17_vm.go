package vm

// Replays for the remaining C17 claims clauses of package vm (vm/verif_contracts_c17.go) on the real code:
//   C17.nonce-exact                  (*StateTransition).preCheck
//   C17.failed-precheck-no-effect    (*StateTransition).TransitionDb, (*EVMTransaction).Apply
// Self-contained: builds its own in-memory stores (tm-db MemDB), account keeper and CommitStateDB.

import (
	"io/ioutil"
	"math/big"
	"testing"
	"time"

	"github.com/Oneledger/protocol/data/balance"
	"github.com/Oneledger/protocol/data/chain"
	"github.com/Oneledger/protocol/data/evm"
	"github.com/Oneledger/protocol/data/keys"
	"github.com/Oneledger/protocol/log"
	"github.com/Oneledger/protocol/storage"
	ethcmn "github.com/ethereum/go-ethereum/common"
	ethcore "github.com/ethereum/go-ethereum/core"
	ethtypes "github.com/ethereum/go-ethereum/core/types"
	abci "github.com/tendermint/tendermint/abci/types"
	db "github.com/tendermint/tm-db"
)

type vrC17Env struct {
	balances *balance.Store
	keeper   balance.AccountKeeper
	stateDB  *CommitStateDB
	header   *abci.Header
	cur      balance.Currency
}

func vrC17Setup(t *testing.T) *vrC17Env {
	mem := db.NewMemDB()
	cs := storage.NewState(storage.NewChainState("balance", mem))
	store := balance.NewStore("tb", cs)
	currencies := balance.NewCurrencySet()
	cur := balance.Currency{Name: "OLT", Chain: chain.Type(1), Decimal: 18}
	if err := currencies.Register(cur); err != nil {
		t.Fatal(err)
	}
	logger := log.NewLoggerWithPrefix(ioutil.Discard, "replay")
	keeper := balance.NewNesterAccountKeeper(storage.NewState(storage.NewChainState("keeper", mem)), store, currencies)
	sdb := NewCommitStateDB(evm.NewContractStore(storage.NewState(storage.NewChainState("contracts", mem))), keeper, logger)
	sdb.SetBlockHash(ethcmn.BytesToHash([]byte("block")))
	return &vrC17Env{
		balances: store, keeper: keeper, stateDB: sdb, cur: cur,
		header: &abci.Header{Height: 1, Time: time.Unix(1600000000, 0), ChainID: "test-1"},
	}
}

func (e *vrC17Env) fund(t *testing.T, addr keys.Address, amount *big.Int) {
	acc := balance.NewEthAccount(addr, balance.Coin{Currency: e.cur, Amount: balance.NewAmountFromBigInt(new(big.Int).Set(amount))})
	if err := e.keeper.SetAccount(*acc); err != nil {
		t.Fatal(err)
	}
}

func (e *vrC17Env) native(addr keys.Address) *big.Int {
	c, err := e.balances.GetBalanceForCurr(addr, &e.cur)
	if err != nil {
		return big.NewInt(-1)
	}
	return new(big.Int).Set(c.Amount.BigInt())
}

func (e *vrC17Env) apply(from keys.Address, to *keys.Address, nonce uint64, value *big.Int, al *ethtypes.AccessList, gas uint64) (*ExecutionResult, error) {
	gp := new(ethcore.GasPool).AddGas(100000000)
	etx := NewEVMTransaction(e.stateDB, gp, e.header, from, to, nonce, value, []byte{}, al, gas, big.NewInt(1000000000), false)
	return etx.Apply()
}

func vrC17Addr(b byte) keys.Address {
	a := make([]byte, 20)
	for i := range a {
		a[i] = b
	}
	return a
}

// C17.nonce-exact: preCheck only rejects stNonce > msgNonce (the ErrNonceTooHigh check is commented out), so a message
// whose nonce is ahead of the account nonce is executed, and executed again: the same (nonce 2) transfer runs three
// times from account nonce 0.
func TestVerifReplayC17NonceGap(t *testing.T) {
	e := vrC17Setup(t)
	from, to := vrC17Addr(0x11), vrC17Addr(0x22)
	e.fund(t, from, new(big.Int).Mul(big.NewInt(1000), big.NewInt(1e18)))
	value := new(big.Int).Mul(big.NewInt(100), big.NewInt(1e18))
	executed := 0
	for i := 0; i < 4; i++ {
		stNonce := e.stateDB.GetNonce(ethcmn.BytesToAddress(from))
		_, err := e.apply(from, &to, 2, value, nil, 21000)
		if err == nil {
			executed++
			if stNonce != 2 {
				t.Errorf("C17.nonce-exact violated: message with nonce 2 was executed while the account nonce was %d (round %d); recipient now holds %s", stNonce, i, e.native(to))
			}
		}
	}
	if executed > 1 {
		t.Errorf("C17.nonce-exact violated: the same nonce-2 message was executed %d times (replay across a nonce gap)", executed)
	}
}

// C17.failed-precheck-no-effect: TransitionDb returns a consensus error AFTER buyGas (here: intrinsic gas too low, the
// access list raises it to 23400 > gas limit 21000) without refunding, and Apply still runs Finalise: the sender stays
// debited gas*price although the transaction "failed its pre-checks".
func TestVerifReplayC17FailedAfterBuyGas(t *testing.T) {
	e := vrC17Setup(t)
	from, to := vrC17Addr(0x33), vrC17Addr(0x44)
	e.fund(t, from, new(big.Int).Mul(big.NewInt(1000), big.NewInt(1e18)))
	before := e.native(from)
	al := ethtypes.AccessList{{Address: ethcmn.BytesToAddress(vrC17Addr(0x55)), StorageKeys: []ethcmn.Hash{}}}
	res, err := e.apply(from, &to, 0, big.NewInt(100), &al, 21000)
	if err == nil {
		t.Skipf("expected a consensus error (intrinsic gas too low), got result %+v", res)
	}
	after := e.native(from)
	if before.Cmp(after) != 0 {
		t.Errorf("C17.failed-precheck-no-effect violated: Apply returned error %q but the sender's balance went from %s to %s (debit %s = gas*price, never refunded)", err, before, after, new(big.Int).Sub(before, after))
	}
}
