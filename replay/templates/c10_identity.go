package identity

import (
	"fmt"
	"testing"

	"github.com/tendermint/tendermint/abci/types"
	db "github.com/tendermint/tm-db"

	"github.com/Oneledger/protocol/config"
	"github.com/Oneledger/protocol/data/balance"
	"github.com/Oneledger/protocol/data/chain"
	"github.com/Oneledger/protocol/data/delegation"
	"github.com/Oneledger/protocol/data/evidence"
	"github.com/Oneledger/protocol/data/fees"
	"github.com/Oneledger/protocol/data/governance"
	"github.com/Oneledger/protocol/data/keys"
	"github.com/Oneledger/protocol/storage"
)

// C10/C18 replay: every candidate has power 0 (all validators fully unstaked) while the fee pool exceeds the minimum fee.
func TestVerifReplayC10DivZero(t *testing.T) {
	mdb := db.NewDB("c10", db.MemDBBackend, "")
	cs := storage.NewChainState("chainstate", mdb)
	if err := cs.SetupRotation(config.ChainStateRotationCfg{Recent: 10, Every: 100, Cycles: 10}); err != nil {
		t.Fatal(err)
	}
	st := storage.NewState(cs)
	vs := NewValidatorStore("v", "purged", st)

	olt := balance.Currency{Id: 0, Name: "OLT", Chain: chain.ONELEDGER, Decimal: 18, Unit: "nue"}
	currencies := balance.NewCurrencySet()
	_ = currencies.Register(olt)

	addr := keys.Address([]byte("01234567890123456789"))
	pk := keys.PublicKey{KeyType: keys.ED25519, Data: make([]byte, 32)}
	// validator record with stake 0 (what HandleUnstake of the full amount leaves behind)
	if err := vs.HandleStake(Stake{ValidatorAddress: addr, StakeAddress: addr, Pubkey: pk, ECDSAPubKey: pk, Name: "v0", Amount: *balance.NewAmount(0)}, false, 0); err != nil {
		t.Fatal(err)
	}

	fp := fees.NewStore("f", st)
	fp.SetupOpt(&fees.FeeOption{FeeCurrency: olt, MinFeeDecimal: 9})
	if err := fp.AddToPool(olt.NewCoinFromInt(1000)); err != nil {
		t.Fatal(err)
	}

	gov := governance.NewStore("g", st)
	gov.WithHeight(0)
	if err := gov.SetStakingOptions(delegation.Options{MinSelfDelegationAmount: *balance.NewAmount(1), MinDelegationAmount: *balance.NewAmount(1), TopValidatorCount: 4, MaturityTime: 1}); err != nil {
		t.Fatal(err)
	}
	if err := gov.SetLUH(governance.LAST_UPDATE_HEIGHT_STAKING); err != nil {
		t.Fatal(err)
	}
	st.Commit() // version 1: the records the election of block 2 reads
	st.Commit() // version 2

	for v := int64(0); v <= 3; v++ {
		d := st.GetVersioned(v, append(vs.prefix, addr...))
		fmt.Printf("C10-REPLAY version %d: %d bytes (cs.Version=%d)\n", v, len(d), cs.Version)
	}
	// BeginBlock(2): the queue is built from version 1
	vs.lastHeight = 2
	vs.InitValidatorQueue(nil)
	fmt.Printf("C10-REPLAY queue len=%d totalPower=%d\n", vs.queue.Len(), vs.totalPower)

	total, _ := fp.Get([]byte(fees.POOL_KEY))
	fmt.Printf("C10-REPLAY pool=%s minFee=%s\n", total.String(), fp.GetOpt().MinFee().String())

	ctx := NewValidatorContext(balance.NewStore("b", st), fp, delegation.NewDelegationStore("st", st), evidence.NewEvidenceStore("es", st), gov, currencies, vs)
	defer func() {
		if r := recover(); r != nil {
			t.Errorf("C10-REPLAY PANIC in GetEndBlockUpdate (fee share divided by totalPower == 0): %v", r)
		}
	}()
	ups := vs.GetEndBlockUpdate(ctx, types.RequestEndBlock{Height: 2})
	fmt.Printf("C10-REPLAY returned %d updates\n", len(ups))
}
