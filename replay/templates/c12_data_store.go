package network_delegation

// Replays for the remaining C12/C02 claims of package data/network_delegation (in-package test, own
// in-memory stores).  Each test FAILS while the defect is present and would PASS on repaired code.

import (
	"testing"

	"github.com/Oneledger/protocol/data/balance"
	"github.com/Oneledger/protocol/data/chain"
	"github.com/Oneledger/protocol/data/keys"
	"github.com/Oneledger/protocol/storage"
	db "github.com/tendermint/tm-db"
)

// vrFaultGas is a storage.GasCalculator that refuses exactly the failAt-th metered (non-overflow)
// operation and accepts all others: the fault model of the storage Store contract (C09: a read or a
// write may fail), applied to one chosen operation.
type vrFaultGas struct {
	n      int
	failAt int
}

func (g *vrFaultGas) Consume(amount, category storage.Gas, allowOverflow bool) bool {
	if allowOverflow {
		return true
	}
	g.n++
	return g.n != g.failAt
}
func (g *vrFaultGas) GetLimit() storage.Gas    { return 1 << 40 }
func (g *vrFaultGas) GetConsumed() storage.Gas { return 0 }
func (g *vrFaultGas) IsEnough() bool           { return false }
func (g *vrFaultGas) GetLeft() uint64          { return 1 << 40 }

func vrAddr(t *testing.T) keys.Address {
	pub, _, err := keys.NewKeyPairFromTendermint()
	if err != nil {
		t.Fatal(err)
	}
	h, err := pub.GetHandler()
	if err != nil {
		t.Fatal(err)
	}
	return h.Address()
}

// C12.prefix-mode-initial: a fresh Store must address the same active records as after WithPrefix(ActiveType).
func TestVerifReplayNewStorePrefix(t *testing.T) {
	state := storage.NewState(storage.NewChainState("chainstate", db.NewDB("c12", db.MemDBBackend, "")))
	st := NewStore("deleg", state)
	d := vrAddr(t)
	olt := balance.Currency{Id: 0, Name: "OLT", Chain: chain.ONELEDGER, Decimal: 18, Unit: "nue"}
	c := olt.NewCoinFromAmount(*balance.NewAmount(70))
	// written through the fresh store (no WithPrefix call yet) ...
	if err := st.Set(d, &c); err != nil {
		t.Fatal(err)
	}
	// ... and read back the way every handler reads the active record
	got, err := st.WithPrefix(ActiveType).Get(d)
	if err != nil {
		t.Fatal(err)
	}
	if got.Amount.BigInt().Int64() != 70 {
		t.Errorf("C12.prefix-mode-initial violated: NewStore aims at %q but WithPrefix(ActiveType) at %q; active record written before the first WithPrefix reads back as %s, want 70",
			string(NewStore("deleg", state).currentPrefix), string(st.buildActiveKey()), got.Amount.String())
	}
}

// C02.delta-error-dropped: AddRewardsBalance returning nil must have credited the delegator's balance.
// Fault: the write of the balance record fails, the write of the total record succeeds; the error of the
// first write is overwritten by the second.
func TestVerifReplayAddRewardsErrorDropped(t *testing.T) {
	plain := storage.NewState(storage.NewChainState("chainstate", db.NewDB("c12", db.MemDBBackend, "")))
	// metered operations of AddRewardsBalance: get(balance) get(total) set(balance) set(total) -> fail the 3rd
	gas := &vrFaultGas{failAt: 3}
	rs := NewDelegRewardStore("rew", plain.WithGas(gas))
	d := vrAddr(t)
	err := rs.AddRewardsBalance(d, balance.NewAmount(40))
	gas.failAt = 0
	bal, e1 := rs.GetRewardsBalance(d)
	tot, e2 := rs.GetTotalRewards()
	if e1 != nil || e2 != nil {
		t.Fatal(e1, e2)
	}
	if err == nil && bal.BigInt().Int64() != 40 {
		t.Errorf("C02.delta-error-dropped violated: AddRewardsBalance(d, 40) returned nil but the reward balance of d is %s (total rewards %s): the error of the first set is dropped",
			bal.String(), tot.String())
	}
}
