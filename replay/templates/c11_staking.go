package staking

// Replays for the remaining C11 claims on the staking handlers (action/staking/verif_contracts.go):
// the stake-address / validator binding is only checked when the named address IS a validator, and the frozen
// guard of withdraw looks at the named address while DelegationStore.Withdraw debits the delegator's pooled
// bounded amount. Self-contained: builds its own context on a tm-db MemDB.

import (
	"testing"

	abci "github.com/tendermint/tendermint/abci/types"
	"github.com/tendermint/tendermint/crypto/ed25519"
	db "github.com/tendermint/tm-db"

	"github.com/Oneledger/protocol/action"
	"github.com/Oneledger/protocol/data/balance"
	"github.com/Oneledger/protocol/data/chain"
	"github.com/Oneledger/protocol/data/delegation"
	"github.com/Oneledger/protocol/data/evidence"
	"github.com/Oneledger/protocol/data/fees"
	"github.com/Oneledger/protocol/data/governance"
	"github.com/Oneledger/protocol/data/keys"
	"github.com/Oneledger/protocol/identity"
	"github.com/Oneledger/protocol/log"
	"github.com/Oneledger/protocol/storage"
)

type vr11Key struct {
	priv ed25519.PrivKeyEd25519
	addr keys.Address
	pub  keys.PublicKey
}

func vr11NewKey() vr11Key {
	p := ed25519.GenPrivKey()
	return vr11Key{priv: p, addr: keys.Address(p.PubKey().Address().Bytes()), pub: keys.PublicKey{KeyType: keys.ED25519, Data: p.PubKey().Bytes()[5:]}}
}

// context with one registered validator `val` whose stake address is `val.addr` itself
func vr11Ctx(val vr11Key) *action.Context {
	ctx := &action.Context{}
	ctx.Header = &abci.Header{Height: 1}
	cs := storage.NewState(storage.NewChainState("c11", db.NewMemDB()))
	ctx.State = cs
	ctx.Balances = balance.NewStore("tb", cs)
	ctx.Logger = new(log.Logger)
	currency := balance.Currency{Id: 0, Name: "OLT", Chain: chain.ONELEDGER, Decimal: 18, Unit: "nue"}
	ctx.Currencies = balance.NewCurrencySet()
	_ = ctx.Currencies.Register(currency)
	_ = ctx.Balances.AddToAddress(val.addr, currency.NewCoinFromInt(10))
	ctx.FeeOpt = &fees.FeeOption{FeeCurrency: currency, MinFeeDecimal: 9}
	ctx.FeePool = fees.NewStore("tf", cs)
	ctx.FeePool.SetupOpt(ctx.FeeOpt)
	ctx.GovernanceStore = governance.NewStore("tg", cs)
	ctx.Delegators = delegation.NewDelegationStore("tst", cs)
	ctx.Validators = identity.NewValidatorStore("tv", "purged", cs)
	ctx.EvidenceStore = evidence.NewEvidenceStore("tes", cs)
	_ = ctx.GovernanceStore.SetFeeOption(*ctx.FeeOpt)
	_ = ctx.Validators.Set(*identity.NewValidator(val.addr, val.addr, val.pub, val.pub, *balance.NewAmountFromInt(0), "node"))
	_ = ctx.GovernanceStore.WithHeight(0).SetStakingOptions(delegation.Options{MinSelfDelegationAmount: *balance.NewAmountFromInt(1), MaturityTime: 10})
	_ = ctx.GovernanceStore.WithHeight(0).SetAllLUH()
	return ctx
}

func vr11Sign(raw action.RawTx, signers ...vr11Key) action.SignedTx {
	tx := action.SignedTx{RawTx: raw}
	for _, k := range signers {
		sig, _ := k.priv.Sign(raw.RawBytes())
		tx.Signatures = append(tx.Signatures, action.Signature{Signer: k.pub, Signed: sig})
	}
	return tx
}

func vr11Raw(msg action.Msg) action.RawTx {
	data, _ := msg.Marshal()
	fee := action.Fee{Price: action.Amount{Currency: "OLT", Value: *balance.NewAmount(10000000000)}, Gas: 10}
	return action.RawTx{Type: msg.Type(), Data: data, Fee: fee, Memo: "c11"}
}

func vr11OLT(x int64) action.Amount {
	return action.Amount{Currency: "OLT", Value: *balance.NewAmountFromInt(x)}
}

// C11.validator-binding / (unstakeTx).Validate: an unstake that names an address which is no validator passes
// Validate (the stake-address comparison runs only when Validators.Get succeeds).
func TestVerifReplayUnstakeValidatorBinding(t *testing.T) {
	val, other := vr11NewKey(), vr11NewKey()
	ctx := vr11Ctx(val)
	msg := &Unstake{ValidatorAddress: other.addr, StakeAddress: val.addr, Stake: vr11OLT(1)}
	ok, err := unstakeTx{}.Validate(ctx, vr11Sign(vr11Raw(msg), val, other))
	if ok {
		t.Errorf("C11.validator-binding violated: unstakeTx.Validate accepted ValidatorAddress %s, which is not a validator (exists=%v), for stake address %s (err=%v)",
			other.addr, ctx.Validators.Exists(other.addr), val.addr, err)
	}
}

// C11.validator-binding / (withdrawTx).Validate: same for withdraw.
func TestVerifReplayWithdrawValidatorBinding(t *testing.T) {
	val, other := vr11NewKey(), vr11NewKey()
	ctx := vr11Ctx(val)
	msg := &Withdraw{ValidatorAddress: other.addr, StakeAddress: val.addr, Stake: vr11OLT(1)}
	ok, err := withdrawTx{}.Validate(ctx, vr11Sign(vr11Raw(msg), val, other))
	if ok {
		t.Errorf("C11.validator-binding violated: withdrawTx.Validate accepted ValidatorAddress %s, which is not a validator (exists=%v), for stake address %s (err=%v)",
			other.addr, ctx.Validators.Exists(other.addr), val.addr, err)
	}
}

// C11.frozen-guard-binding / runWithdraw: the delegator's validator is frozen; he withdraws his matured funds by
// naming a second address he controls (not a validator, hence not frozen and not compared with anything).
func TestVerifReplayWithdrawWhileFrozen(t *testing.T) {
	val, other := vr11NewKey(), vr11NewKey()
	ctx := vr11Ctx(val)
	_ = ctx.Delegators.SetDelegatorBoundedAmount(val.addr, *balance.NewAmountFromInt(5)) // matured, unstaked from validator `val`
	if _, err := ctx.EvidenceStore.CreateSuspiciousValidator(val.addr, evidence.BYZANTINE_FAULT, 1, nil); err != nil || !ctx.EvidenceStore.IsFrozenValidator(val.addr) {
		t.Skip("could not freeze the validator: ", err)
	}
	// control: naming the frozen validator is refused
	honest := &Withdraw{ValidatorAddress: val.addr, StakeAddress: val.addr, Stake: vr11OLT(5)}
	if ok, _ := (withdrawTx{}).ProcessDeliver(ctx, vr11Raw(honest)); ok {
		t.Fatalf("control failed: withdraw naming the frozen validator succeeded")
	}
	msg := &Withdraw{ValidatorAddress: other.addr, StakeAddress: val.addr, Stake: vr11OLT(5)}
	tx := vr11Sign(vr11Raw(msg), val, other)
	okV, errV := withdrawTx{}.Validate(ctx, tx)
	okD, resp := withdrawTx{}.ProcessDeliver(ctx, tx.RawTx)
	left, _ := ctx.Delegators.GetDelegatorBoundedAmount(val.addr)
	if okV && okD {
		t.Errorf("C11.frozen-guard-binding violated: validator %s is frozen, yet its delegator withdrew 5 OLT by naming %s (not a validator): Validate=%v (%v) ProcessDeliver=%v %s, bounded amount left %s",
			val.addr, other.addr, okV, errV, okD, resp.Log, left)
	}
}
