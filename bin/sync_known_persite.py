#!/usr/bin/env python3
# For every open known finding recorded on a combined obligation `.../iter-stop[iterN]#1`, list the per-return-site
# obligations `.../iter-stop[iterN]@ret<k>#1` that fail on the unchanged tree (taken from expected/<prop>.json,
# not_claimed) under the same finding id. Run after a rebaseline on the unchanged tree; never run by the checks.
import json,glob,re
kp='/verif/known_findings.json'
k=json.load(open(kp))
have={(x['property'],x['obligation']) for x in k}
added=0
for f in sorted(glob.glob('/verif/expected/*.json')):
    prop=f.split('/')[-1][:-5]
    e=json.load(open(f))
    for n in e.get('not_claimed',[]):
        m=re.match(r'(.*/iter-stop\[[^\]]+\])@ret\d+(#\d+)$',n)
        if not m: continue
        comb=m.group(1)+m.group(2)
        base=[x for x in k if x['property']==prop and x['obligation']==comb and x['status']=='open']
        if not base or (prop,n) in have: continue
        y=dict(base[0]); y['obligation']=n
        y['what_fails']=base[0]['what_fails']+' (this return site of the wrapper closure)'
        k.append(y); have.add((prop,n)); added+=1
json.dump(k,open(kp,'w'),indent=1)
print('added',added,'entries; total',len(k))
