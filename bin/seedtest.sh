#!/bin/bash
# usage: bin/seedtest.sh <seed-id> <worktree> <props...>
# 1. copies the seed (patch, demo, notes) to /verif/seeded/<id>/  2. applies the patch to /repo, runs the checks, reverts it
set -u
id="$1"; wt="$2"; shift 2
mkdir -p /verif/seeded/$id
cp $wt/seed_out/patch.diff /verif/seeded/$id/patch.diff
cp $wt/seed_out/demo_test.go /verif/seeded/$id/demo_test.go 2>/dev/null
cp $wt/seed_out/notes.md /verif/seeded/$id/notes.md 2>/dev/null
cd /repo
if ! git apply --check /verif/seeded/$id/patch.diff 2>/dev/null; then echo "PATCH DOES NOT APPLY"; exit 2; fi
git apply /verif/seeded/$id/patch.diff
for p in "$@"; do
  echo "=== $p on seed $id"
  (cd /verif && ./bin/check $p 2>&1 | grep -E "VIOLATION|failed obligation|UNDECIDED|claimed obligations" | head -8)
done
git apply -R /verif/seeded/$id/patch.diff
git status --short | grep -v "^??" | head
