#!/bin/bash
# usage: bin/rebaseline.sh <prop> [runs=2]
# Re-creates expected/<prop>.json on the UNCHANGED tree: the claimed set is the intersection of the obligations that
# discharged within the claim threshold in every one of <runs> runs (an obligation that is fast only sometimes is
# not claimed, so it can never alarm).
set -u
p="$1"; n="${2:-2}"
cd /verif
tmp=$(mktemp -d)
for i in $(seq 1 $n); do
  ./bin/check $p --update-baseline > $tmp/run$i.log 2>&1 || { echo "run $i of $p exited non-zero"; tail -5 $tmp/run$i.log; }
  cp expected/$p.json $tmp/exp$i.json
done
python3 - "$p" "$n" "$tmp" <<'PY'
import json,sys
p,n,tmp=sys.argv[1],int(sys.argv[2]),sys.argv[3]
es=[json.load(open(f"{tmp}/exp{i}.json")) for i in range(1,n+1)]
keep=set(es[0]['obligations'])
for e in es[1:]: keep&=set(e['obligations'])
out=es[-1]; dropped=sorted(set().union(*[set(e['obligations']) for e in es])-keep)
out['obligations']={k:v for k,v in out['obligations'].items() if k in keep}
allnames=set()
for e in es: allnames|=set(e['obligations'])|set(e.get('not_claimed') or [])
out['not_claimed']=sorted(allnames-keep)
json.dump(out,open(f"/verif/expected/{p}.json","w"),indent=1)
print(f"{p}: {len(keep)} claimed in all {n} runs; {len(dropped)} dropped as unstable")
for d in dropped[:20]: print("   unstable:",d)
PY
grep -h "claimed obligations" $tmp/run*.log
rm -rf $tmp
