#!/bin/bash
# usage: bin/selftest_determinism.sh [runs=3] [props...]
# The text of every SMT query must be identical from run to run (otherwise the same obligation can be easy in one run
# and time out in the next: a false alarm waiting to happen). Prints one line per property with the hash of
# (obligation name, md5 of query text) over all queries of each run.
cd /verif
n=${1:-3}; shift
props=${@:-C02 C03 C04 C06 C07 C09 C10 C11 C12 C13 C14 C15 C17 C18 C19 C20}
rc=0
for p in $props; do
  h=""
  for k in $(seq 1 $n); do f=$(mktemp); rm -f $f; GOVC_QHASH=$f ./bin/check $p > /dev/null 2>&1; h="$h $(sort $f | md5sum | cut -c1-8)"; rm -f $f; done
  u=$(echo $h | tr ' ' '\n' | sort -u | wc -l)
  echo "$p$h $([ $u = 1 ] && echo same || echo DIFFERENT)"
  [ $u = 1 ] || rc=1
done
exit $rc
