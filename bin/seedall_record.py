#!/usr/bin/env python3
# usage: bin/seedall_record.py <seedall output file>
# fills check_result / check_detail of seeded/<id>/meta.json entries that are still "pending", and reports every
# recorded seed whose own property's check did not raise a VIOLATION in this run.
import json,sys,re,os
missed=[]
for l in open(sys.argv[1]):
    m=re.match(r'^(\S+) (C\d\d) exit=(\d+) violations=(\d+)\s*(.*)$',l.strip())
    if not m: continue
    sid,prop,rc,n,first=m.group(1),m.group(2),int(m.group(3)),int(m.group(4)),m.group(5)
    p=f'/verif/seeded/{sid}/meta.json'
    meta=json.load(open(p))
    caught = rc==1 and n>0
    if not caught: missed.append(sid)
    if meta.get('check_result')=='pending':
        meta['check_result']='caught' if caught else 'missed'
        meta['check_detail']=(f'VIOLATION ({prop}) {first}' if caught else 'no VIOLATION')
        json.dump(meta,open(p,'w'),indent=1)
print('not caught:',missed)
