#!/usr/bin/env python3
# usage: add_known.py <property> <id> <obligation> <what fails> [replay test]
import json,sys
p='/verif/known_findings.json'
k=json.load(open(p))
prop,fid,obl,what=sys.argv[1:5]
rep=sys.argv[5] if len(sys.argv)>5 else ""
k=[e for e in k if not (e['property']==prop and e['obligation']==obl)]
e={"id":fid,"property":prop,"status":"open","obligation":obl,"what_fails":what}
if rep: e["replay"]=rep
k.append(e)
json.dump(k,open(p,'w'),indent=1,ensure_ascii=False)
