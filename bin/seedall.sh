#!/bin/bash
# re-runs every recorded seeded change against the check of its property: applies seeded/<id>/patch.diff to /repo,
# runs bin/check <property>, reverts. Prints one line per seed. The unchanged tree must be clean when this starts.
V="$(cd "$(dirname "$0")/.." && pwd)"; R="${VERIF_REPO:-/repo}"
cd "$V"
only="${1:-}"
# the evidence files are rewritten by every run; keep the ones of the unchanged tree
evsave=$(mktemp -d); cp -a evidence/. $evsave/
for d in seeded/*/; do
  id=$(basename $d)
  if [ -n "$only" ] && ! echo "$id" | grep -qE "$only"; then continue; fi
  prop=$(python3 -c "import json;print(json.load(open('$d/meta.json'))['property'])")
  cd "$R"
  if ! git apply --check $V/$d/patch.diff 2>/dev/null; then echo "$id $prop PATCH-DOES-NOT-APPLY"; cd "$V"; continue; fi
  git apply $V/$d/patch.diff
  out=$(cd "$V" && ./bin/check $prop 2>&1); rc=$?
  git apply -R $V/$d/patch.diff
  n=$(echo "$out" | grep -c "^VIOLATION")
  first=$(echo "$out" | grep "failed obligation" | head -1 | sed 's/.*failed obligation[^:]*: //' | cut -c1-110)
  echo "$id $prop exit=$rc violations=$n  $first"
  cd "$V"
done
cp -a $evsave/. evidence/; rm -rf $evsave
git -C "$R" status --short | grep -v "^??"
