#!/bin/bash
# re-runs every recorded seeded change against the check of its property: applies seeded/<id>/patch.diff to /repo,
# runs bin/check <property>, reverts. Prints one line per seed. The unchanged tree must be clean when this starts.
cd /verif
# the evidence files are rewritten by every run; keep the ones of the unchanged tree
evsave=$(mktemp -d); cp -a evidence/. $evsave/
for d in seeded/*/; do
  id=$(basename $d)
  prop=$(python3 -c "import json;print(json.load(open('$d/meta.json'))['property'])")
  cd /repo
  if ! git apply --check /verif/$d/patch.diff 2>/dev/null; then echo "$id $prop PATCH-DOES-NOT-APPLY"; cd /verif; continue; fi
  git apply /verif/$d/patch.diff
  out=$(cd /verif && ./bin/check $prop 2>&1); rc=$?
  git apply -R /verif/$d/patch.diff
  n=$(echo "$out" | grep -c "^VIOLATION")
  first=$(echo "$out" | grep "failed obligation" | head -1 | sed 's/.*failed obligation[^:]*: //' | cut -c1-110)
  echo "$id $prop exit=$rc violations=$n  $first"
  cd /verif
done
cp -a $evsave/. evidence/; rm -rf $evsave
git -C /repo status --short | grep -v "^??"
