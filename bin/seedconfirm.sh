#!/bin/bash
# usage: bin/seedconfirm.sh <worktree> <pkgdir> <TestRegex> [extra pkgs whose existing tests must still pass]
# confirms in the scratch worktree: builds, existing tests of the touched packages pass with the change,
# the demo fails with the change and passes without it.
set -u
wt="$1"; pkg="$2"; run="$3"; shift 3
export GOFLAGS=-mod=mod GOPROXY=off GOSUMDB=off GOTOOLCHAIN=local
cd "$wt"
files=$(git diff --name-only | grep -v seed_out | tr '\n' ' ')
echo "changed: $files"
pkgs=$(for f in $files; do echo "./$(dirname $f)/..."; done | sort -u | tr '\n' ' ')
echo "--- build touched packages"; go build $pkgs "$@" 2>&1 | tail -3
echo "--- existing tests with change: $pkgs $*"; go test -vet=off -count=1 $pkgs "$@" 2>&1 | grep -vE "^I\[|^E\[|^D\[" | tail -6
cp seed_out/demo_test.go $pkg/zz_seed_demo_test.go
echo "--- demo WITH change (must FAIL)"; go test -vet=off -count=1 -run "$run" ./$pkg/ 2>&1 | grep -E "^(--- FAIL|FAIL|ok|PASS)" | head -5
pf=$(mktemp); git diff -- $files > $pf; git apply -R $pf   # (not git stash: the stash is shared by all worktrees)
echo "--- demo WITHOUT change (must PASS)"; go test -vet=off -count=1 -run "$run" ./$pkg/ 2>&1 | grep -E "^(--- FAIL|FAIL|ok|PASS)" | head -5
git apply $pf; rm -f $pf
rm -f $pkg/zz_seed_demo_test.go
git status --short | head -5
