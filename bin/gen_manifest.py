#!/usr/bin/env python3
# Regenerates /verif/MANIFEST.json from the table below (the single place where the per-property claims are written).
import json, subprocess

def hook_commits():
    out = subprocess.check_output(['git', '-C', '/repo', 'log', '--format=%h %s']).decode().splitlines()
    return [l.split()[0] for l in reversed(out) if l.split(' ', 1)[1].startswith('verif')]

TECH = "contract-based deductive verification of the real code (requires/ensures/modifies/loop invariants in comment-only contract files, VCs from go/ssa, discharged by z3/cvc5)"

P = {}
P['C02'] = dict(
 technique=TECH + " over ghost ledgers with running totals",
 text="Unbounded proofs, function by function, over ghost ledgers with running totals: coin arithmetic is exact, every ledger mutator of the balance, fee, stake, network-delegation, reward and proposal-fund stores changes exactly one record by exactly the amount and fails without effect, every call site proves the amount non-nil and non-negative (C02.sign), and the handlers under contract (send, sendpool, fee handling, staking, network delegation, governance fund/withdraw/distribute, reward withdrawal, ETH mint/burn/refund, ONS payments, validator fee shares) conserve or bound the per-currency total as the statement demands. Clauses the code violates are listed as known findings; five were repaired (negative / truncated amounts).",
 note="Typed get/set layer of each store assumed (state keys are built by string formatting); independence of stores with distinct prefixes assumed; option invariants from genesis assumed; the cross-block sum over ALL stores is not composed into one theorem: the statement is decided per transaction kind and per block hook, each against its own ledgers. Block-reward minting bound: see C13. The check also verifies the clauses of other tags its argument rests on (C17's OLVM gas accounting: what the sender pays equals what pool and recipient get).")
P['C03'] = dict(
 technique=TECH + ": per-handler postcondition 'only the signer's records decrease'",
 text="Unbounded proof, for every handler and block hook under contract, that the only ledger records that can decrease are those keyed by the message's signer (resp. the fee payer, the stake account of the signing validator, the guilty validator in the allegation tracker), stated as a quantified frame over the ghost ledgers of the balance, stake, network-delegation, reward and proposal-fund stores. One violation is a known finding (a stranger withdraws the matured rewards of a removed validator).",
 note="Same trusted base as C02; 'total holdings of an account' is decided ledger by ledger, not as one sum; maturity moves between an account's own ledgers are covered where C11/C12 prove them. The check also verifies all of C04's clauses (signature verification, key handlers, Validate-before-Process), on which 'signed' rests.")
P['C04'] = dict(
 technique=TECH + " (loop invariant on ValidateBasic, per-handler Validate postconditions, history tokens on the ABCI wrappers)",
 text="Unbounded proof that ValidateBasic accepts only when every required signer address, in order, has a signature by the key with that address verifying over the given bytes; that each handler's Validate (transfer, staking, network delegation, governance, rewards, evidence, ONS, ETH, OLVM) calls it with the Signers() of the same decoded payload over the serialisation of (type, payload, fee, memo); that the key handlers really verify (ed25519/secp256k1 library contracts) and derive the address from the key; that GetHandler returns a handler only for key bytes of exactly the algorithm's size; and that CheckTx and DeliverTx reach ProcessCheck/ProcessDeliver/ProcessFee only after that handler's Validate returned true for the same transaction (DeliverTx did not: repaired). OLVM payload malleability (access list, type, signer field unauthenticated) is a known finding.",
 note="Signature schemes are uninterpreted functions with the libraries' contracts assumed (T-CRYPTO); JSON/serializer decoding are deterministic functions of the bytes (T-JSON, T-SER); BTC handlers are not under contract.")
P['C06'] = dict(
 technique=TECH + " of the ABCI wrappers and block-end runners + call-graph frame condition on every handler",
 text="Unbounded proof that txDeliverer/txChecker and the block-end runners (expire/finalize proposals) open a tx session before any handler code runs, that every path ends with the session committed or discarded, and that a non-zero result code leaves everything below the session exactly as on entry; the handler frame (no action.Tx implementation can reach a session/commit/tree-write primitive) is decided on the static call graph of all implementations; State.Set/Delete are proved session-isolated (C09); the EVM per-transaction bookkeeping is finalised exactly once per delivered transaction. One defect repaired (runner left the session open on an undecodable queued transaction).",
 note="Assumed: app.context.Action returns a context over the given state (its aiming is proved under C07); in-memory side effects of failed transactions other than chain state are covered by a call-graph frame (C06.store-memo: the only fields of objects reachable from the application context that the DeliverTx call graph writes are the listed ones — state-pointer re-aiming, the session machinery, the EVM per-transaction cache that Finalise is proved to empty, decoded values and option caches) and by the write-through clauses of the fee and balance stores; the listed option caches themselves are not proved to be restored; doEthTransitions' `continue` after a failed transition leaves its session to the next Begin/Discard (observed, not claimed). The check also verifies the C09 clauses of package storage (BeginTxSession/Set/Delete/Commit/DiscardTxSession), on which the session argument rests.")
P['C07'] = dict(
 technique="contract-based deductive verification in a type-state mode: `aimcheck` contracts on every consensus hook, VCs from go/ssa with callees abstracted by call-graph MOD/USE sets of the stores' state-pointer fields, discharged by z3/cvc5; call-graph `nowrite` frame clauses for CheckTx",
 text="Unbounded proof, for every consensus entry point of package app (InitChain, BeginBlock, DeliverTx, EndBlock, Commit closures) and every helper that receives the context, starting from a heap in which every shared store's state pointer is ARBITRARY (any earlier CheckTx may have re-aimed it at the check state): at each call, the receiver and every store, master store or context argument whose state pointer the callee can read is aimed at app.Context.deliver; Action() and ValidatorCtx() are proved to hand out only stores aimed at the requested state. Plus a call-graph frame for CheckTx: it never writes the context's pointers nor the validator queue, reward calculator cache or EVM per-block bookkeeping. Two sites failed on the pinned tree and were repaired after a two-replica replay with a real CheckTx showed diverging results (BeginBlock read the fee option, and scanned proposals for internal transactions, through stores left aimed by the last CheckTx); a CheckTx of a finalize transaction switching the in-memory option caches of shared stores is refuted by the frame and listed as a known finding (three clauses, replays).",
 note="Callees are abstracted by the set of aim fields they can write (object-insensitive; static calls, interface calls by class hierarchy over module types, function values resolved by signature over address-taken module functions); store methods are trusted to use only their own state pointer and the stores handed to them; the internal-transaction queue is exempt by design; other mode fields CheckTx leaves behind (store prefixes, governance.Store.height, JobStore.chain) and intra-call concurrency of the two ABCI connections are not covered; the conclusion 'consensus results are identical' rests on this channel analysis, it is not a two-run relational proof.")
P['C09'] = dict(
 technique=TECH + " of the storage layers against an abstract three-layer map",
 text="Unbounded proof, function by function, that the key/value layers (session cache, tx session, gas wrappers) and storage.State's Get/Set/Exists/Delete/Begin/Commit/DiscardTxSession/Write/Commit meet an abstract three-layer map specification taken from the property statement: reads return the most recent write in scope, session writes never touch the block layer, commit copies exactly the session's keys in order, discard drops them, State.Commit writes exactly the block's surviving keys to the tree and saves one new version, representation invariants (ordered duplicate-free key list) are preserved. Two clauses of the statement are refuted on the unchanged tree and listed as known findings (a key deleted in the same session/block reads as the tombstone; stale read from the tree after gas exhaustion).",
 note="Assumed: the IAVL tree as a versioned textbook map (extern contracts on MutableTree Get/Set/Remove/SaveVersion/GetVersioned), append/[]byte immutability, interface-level representation framing (A-REPFRAME). Not decided: reopening the database, root-hash-is-a-function-of-contents (IAVL internals), rotation deleting old versions (only its frame).")
P['C10'] = dict(
 technique=TECH + " (priority queue representation invariant, loop invariants on the election and purge loops)",
 text="Unbounded proof on identity.(*ValidatorStore).GetEndBlockUpdate / InitValidatorQueue / HandleStake / HandleUnstake and utils.PriorityQueue: every positive-power update is an admitted validator of the previous block's records (stake >= minimum, not flagged malicious, power == recorded power, the record's public key), at most top-count are issued and candidates left in the queue have at most the power of every issued one, a purge update (power 0) is only issued for a validator of the last active set that is not in the top and only when the purge-height guard allows, fee shares are non-negative and conserve the fee total. One crash defect repaired (division by a zero total power).",
 note="container/heap wrapped by ValidatorQueue Pop/Push/Init is assumed (Pop returns a maximal element); the typed store view and Iterate are assumed; 'frozen' enters only through the malicious set built by CheckMaliciousValidators (C19); environment preconditions (queue built for this height, staking options stored) are requires of the hook, not proved of blockEnder. NOT decided: Tendermint acceptability across blocks (no duplicate keys, never emptying the set), disjointness of positive and purge sets, five-block convergence (whole-history).")
P['C11'] = dict(
 technique=TECH + " (stake ledgers with running totals, loop invariants on maturation)",
 text="Unbounded proof on the delegation store and the staking handlers: stake/unstake/withdraw move exactly the amount between the locked, pending(maturity height) and withdrawable ledgers of that delegator, the validator total equals the sum of its delegators' locked amounts after every mutator, UpdateWithdrawReward credits at height h exactly the amounts recorded for h and each record at most once (loop invariant: old <= new <= old + pending(h)), withdraw debits only withdrawable, the frozen guard is checked before unstake/withdraw. Two defects repaired (unvalidated / truncated amounts); error-path and frozen-guard-binding clauses the code violates are known findings.",
 note="Typed get/set layer and the string key builders assumed; penalties enter through C19's ExecuteAllegationTracker; 'sum of what was ever withdrawn' is decided per call as a bound against the withdrawable ledger, not as a whole-history sum.")
P['C12'] = dict(
 technique=TECH + " (pool/active-sum ghost totals, iterator invariants on the maturity payout)",
 text="Unbounded proof on the network-delegation store, its handlers and the block-begin payout (app.addMaturedAmountsToBalance): delegate/undelegate/withdraw/reinvest change the pool balance and the active sum by the same amount (pool >= active sum preserved), an undelegated amount is recorded pending at height+maturity for that delegator only, the payout at height h pays exactly the records of height h, zeroes them, and pays nobody else. The scan defect (missing height separator: early and repeated payout) and unvalidated amounts were repaired; swallowed read errors are known findings.",
 note="Typed get/set layer and key builders assumed; the pool account's balance is the balance-store record of the pool address (direct donations make it larger, as the statement allows); maturity period read from governance options at undelegation time (assumed getter).")
P['C13'] = dict(
 technique=TECH + " (nonlinear integer arithmetic lemmas, cache invariant, iterator invariants)",
 text="Unbounded proof on data/rewards (Calculate, PullRewards, ConsumeRewards, WithdrawRewards, year/total counters), the reward-withdraw handler and the block-begin reward hooks: the pulled amount is bounded by the year's remaining supply at cycle start (resp. burnout rate capped by the pool), the split between delegators, commission and proposer never exceeds its input, credited totals are bounded by what is booked as consumed, a withdrawal debits exactly the requested matured amount and never below zero. One defect repaired (unvalidated withdraw amount).",
 note="Conditional on forecast > 0 (the forecast goes through float64, uninterpreted); Tendermint votes precondition and the cross-block cache invariant are requires of handleBlockRewards; NOT proved: the link totalConsumed <= pulled (invariant written, solver timeout with a non-empty delegation pool), restart-independence beyond the per-function determinism clause. Typed get/set layers assumed.")
P['C14'] = dict(
 technique=TECH + " (stage-store ghost maps, store invariant assume/guarantee per proposal)",
 text="Unbounded proof on the proposal stores and the governance handlers: each handler's guard on the entry state (status, stage store, deadlines), forward-only moves between the five stage stores, funds recorded per funder and returned exactly on cancel/withdraw, fund records' sum equal to the recorded total (store invariant re-established by create/fund/withdraw, consumed by finalize), the tally rule as an exact function of the recorded votes, the distribution never exceeding the recorded total. Four defects repaired (negative amounts, expire guard, open session); pass-percentage mismatch between vote and finalize, finalised records left in their completed store and inexact distribution are known findings.",
 note="Typed get/set layers, option getters and the validator snapshot getter assumed; finalize verified only for non-ConfigUpdate records (the governance update is a call through a table of function values); floating-point percentages are uninterpreted functions; the block-end runners' ProcessDeliver frames assumed.")
P['C15'] = dict(
 technique=TECH + " (tracker store ghost maps per prefix, vote-count axioms, transition contracts)",
 text="Unbounded proof on data/ethereum, action/eth, chains/ethereum parsers, the block-end transitions of package event and app.doEthTransitions: a lock/redeem is recorded only if no tracker of that external transaction exists in the stores the handler checks, a finality report counts one vote per recorded witness, mint/refund happen only past the 2/3 threshold, once, in the tracker's amount and to the tracker's owner, a redeem debits before the tracker is written, cleanup moves a finished tracker to exactly one of passed/failed and out of ongoing without touching any other record. Two defects repaired (mint beneficiary, parser bounds); ERC20 lock without existence check, ERC20 redeem never failing/refunding and the failed-store check are known findings.",
 note="Typed tracker store view assumed; Ethereum transaction decoding/verification against the chain assumed as functions of their inputs; the dispatch of transition.Engine.Process through a table of function values is summarised by an assumed interface contract (A-DISPATCH); job store not modelled.")
P['C17'] = dict(
 technique=TECH + " (one-ledger representation clause for the account keeper, gas arithmetic with explicit 64-bit wrap)",
 text="Unbounded proof on vm.StateTransition (preCheck, buyGas, refundGas, TransitionDb), the account keeper and the OLVM handler: the EVM balance of an address is by representation the native OLT record, an executed message debits gas*price (+value) up front, refunds exactly the unused gas, credits exactly used*price to the fee pool, gas used never exceeds the limit, nonce rules as far as the code implements them. Signature-validation crashes were repaired; nonce gaps accepted, self-destruct duplicating the native balance, failed pre-check leaving the sender debited at function level, payload malleability are known findings.",
 note="The EVM interpreter (evm.Call/Create) is an assumed contract (frame + gas monotonicity); the keeper's typed state view assumed; the handler-level atomicity of failed transactions comes from C06.")
P['C18'] = dict(
 technique=TECH + " with the engine's safety mode: nil-dereference, index, division, conversion, explicit panic and logger.Fatal obligations on every function marked `safety C18`",
 text="Unbounded proof, for the ABCI wrappers and every handler/body/store function marked safety C18, that no path from a decoded transaction reaches a nil dereference, an out-of-range index/slice, a division by zero, an explicit panic or logger.Fatal — under the context well-formedness (ctxOK) the wrappers prove before calling a handler. Crash defects found this way were repaired (OLVM signature length / chain id, Ethereum parser bounds, undelegate with unknown currency, zero total power); the remaining refuted sites are known findings.",
 note="Library code (go-ethereum, tendermint, json) is assumed not to panic on any input (T-PURE/T-JSON); out-of-memory, stack depth and goroutine panics are outside the model; only functions marked safety are covered (listed in the evidence).")
P['C19'] = dict(
 technique=TECH + " (vote-count ghost functions with definitional axioms, loop invariants over the allegation tracker)",
 text="Unbounded proof on data/evidence, action/evidence and identity (ExecuteAllegationTracker, CheckMaliciousValidators): a verdict is reached only when the counted yes/no votes cross the configured share, each voter counted once per request, only the guilty validator's stake is debited, by the configured percentage, the bounty is non-negative, paid only with a penalty and only to the bounty account, delayed unstake recorded; release only after the release time. Downgrade of a byzantine freeze by the missed-votes path, frozen reporter opening allegations, stale votes of inactive validators and the unpenalised unknown address are known findings.",
 note="Raw evidence store layer and key builders assumed; store invariants wfReqAt/wfSuspAt assumed at handler entry (proved preserved by the mutators); big.Float penalty arithmetic uninterpreted (sign of the penalty at one call site unproved, not claimed); four definitional axioms.")
P['C20'] = dict(
 technique=TECH + " (domain store ghost map, string axioms for the reversed-name keys)",
 text="Unbounded proof on data/ons and the ONS handlers: a name is created only if absent, owner/beneficiary/sale status/URI change only in handlers whose Validate proved the owner's signature (or in a purchase), a purchase pays at least the asking price to the previous owner (base price for an expired name), expiry is set/extended by exactly the blocks the payment buys, sub-domain rules. Known findings: same-block sub-domains invisible to the range scan, expiry truncation through int64, several guard mismatches.",
 note="Typed domain store view assumed; name validity / parent-name helpers assumed pure; two string axioms; per-block fee > 0 from genesis options assumed.")

NA = [
 ("C01", "two-run relational property over whole block histories (same blocks on two nodes give the same hashes, updates and results): a contract on one call can only state it where a complete functional specification exists; the relational (product-program) mode sketched in DESIGN.md was not built, and the sources of divergence it names (map iteration order, node identity, wall-clock, float arithmetic) are only modelled as arbitrary/uninterpreted by the verifier, which cannot prove two runs pick the same values (DESIGN.md 5/C01, 11)"),
 ("C05", "the replay record is Tendermint's external transaction index over the whole history and the byte-encoding relation is JSON-parser string reasoning; no function contract within reach expresses it (DESIGN.md 5/C05)"),
 ("C08", "quantifies over crash points and on-disk states at the process/LevelDB/IAVL/Tendermint boundary; restart is not a call that can carry a contract (DESIGN.md 5/C08)"),
 ("C16", "equivalence with go-ethereum's StateDB over all EVM programs needs the interpreter and the reference implementation inside the proof; outside the verifiable subset (DESIGN.md 5/C16)"),
]

order = ['C02','C03','C04','C06','C07','C09','C10','C11','C12','C13','C14','C15','C17','C18','C19','C20']
checks = []
for pid in order:
    d = P[pid]
    checks.append({
        "property_id": pid,
        "quick_cmd": f"bin/check {pid} --tier quick",
        "thorough_cmd": f"bin/check {pid} --tier thorough",
        "evidence_file": f"evidence/{pid}.json",
        "replay_cmd_template": f"bin/check {pid} --replay {{path}}",
        "engine": "govc",
        "technique": d['technique'],
        "level_claimed": {"category": "proof", "design_ref": f"DESIGN.md 5/{pid}, 11", "text": d['text']},
        "level_note": d['note'] + " Claimed obligations (proved on the unchanged tree within 6 s) are listed by name in expected/%s.json; an obligation that was never proved is listed as unclaimed in the evidence and never alarms." % pid,
    })
m = {
 "version": 1,
 "setup_cmd": "./setup.sh",
 "hooks": {
  "guard": "verif",
  "enable": "-tags verif (comment-only contract files verif_contracts*.go; nothing executable is guarded)",
  "baseline_off_cmd": "cd /repo && GOFLAGS=-mod=mod GOPROXY=off GOSUMDB=off go test -vet=off -count=1 -timeout 25m ./...",
  "source_commits": hook_commits(),
  "add_only": True,
 },
 "engines": [{
  "name": "govc", "path": "govc/", "serves_properties": order,
  "kind_free_text": "contract-based deductive verifier for Go written for this task: VC generation over go/ssa of /repo's working tree, contracts in comment-only files behind build tag verif, obligations discharged by z3 4.8.12 / z3 5.1.0 / cvc5 1.0.3 (raced); call-graph frame conditions (forbids / nowrite / aim MOD sets) decided on the module call graph",
 }],
 "checks": checks,
 "not_applicable": [{"property_id": a, "reason": b} for a, b in NA],
 "notes": "Every check rebuilds its VCs from /repo's working tree. Genuine defects repaired by `fix:` commits and the ones recorded instead are in known_findings.json (status open / fixed: <commit>); seeded changes and what caught them are in seeded/*/meta.json and DESIGN.md 11.4.",
}
json.dump(m, open('/verif/MANIFEST.json', 'w'), indent=1)
print("manifest written:", len(checks), "checks,", len(NA), "not applicable,", len(m['hooks']['source_commits']), "hook commits")
