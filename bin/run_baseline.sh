#!/bin/bash
# runs the repository's test suite (guard off) and compares against BASELINE.json's stable_pass list
cd /repo
export GOFLAGS=-mod=mod GOPROXY=off GOSUMDB=off GOTOOLCHAIN=local
out=${1:-/tmp/baseline_run.json}
go test -json -vet=off -count=1 -timeout 25m ./... > "$out" 2>/dev/null
python3 - "$out" <<'PY'
import json,sys
passed=set()
for l in open(sys.argv[1]):
    try: e=json.loads(l)
    except: continue
    if e.get('Action')=='pass' and e.get('Test'):
        passed.add(e['Package']+'::'+e['Test'])
b=json.load(open('/root/.vp/BASELINE.json'))
stable=set(b['stable_pass'])
missing=sorted(stable-passed)
print("stable_pass:",len(stable),"passed now:",len(stable&passed),"missing:",len(missing))
for m in missing: print("  MISSING",m)
sys.exit(1 if missing else 0)
PY
