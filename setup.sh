#!/bin/bash
# builds /verif/bin/govc from the vendored sources, offline
set -e
cd "$(dirname "$0")/govc"
export GOFLAGS=-mod=vendor GOPROXY=off GOSUMDB=off GOTOOLCHAIN=local
go build -o ../bin/govc .
